//! C18: selecting a record type that is not an input stream must be REJECTED (documented: SequenceError), not panic.
use fastcgi_server::{Config, parser::request, protocol::RecordType};

#[test]
fn non_stream_record_type_is_rejected_without_panicking() {
    let config = Config::with_conns(1.try_into().unwrap());
    let mut rp = request::Parser::new(&config);
    let bytes = [1u8, 1, 0, 1, 0, 8, 0, 0,  0, 1, 0, 0, 0, 0, 0, 0,   1, 4, 0, 1, 0, 0, 0, 0];   // Responder, empty Params
    rp.input_buffer()[..bytes.len()].copy_from_slice(&bytes);
    assert!(rp.parse(bytes.len()).done);
    let mut sp = rp.into_stream_parser().unwrap();
    assert_eq!(sp.active_stream(), Some(RecordType::Stdin));
    for t in [RecordType::Stdout, RecordType::Params, RecordType::GetValues, RecordType::BeginRequest] {
        assert!(sp.set_stream(Some(t)).is_err(), "{t:?} is not an input stream of any role");
        assert_eq!(sp.active_stream(), Some(RecordType::Stdin), "rejected selection must change nothing");
    }
}
