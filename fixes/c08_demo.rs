#![cfg(feature = "async")]
//! Demonstration of the C08 defect (server waits for client input while owing a reply), public API only.
//! Fails on the original source, passes with the fix.
use std::io;
use std::pin::Pin;
use std::task::{Context, Poll};
use futures_util::io::{AsyncRead, AsyncWrite};
use fastcgi_server::{Config, parser::request, async_io::Request};

#[derive(Debug)]
struct PendingReader;                      // the peer sends nothing more until it has seen the reply
impl AsyncRead for PendingReader {
    fn poll_read(self: Pin<&mut Self>, _: &mut Context<'_>, _: &mut [u8]) -> Poll<io::Result<usize>> { Poll::Pending }
}
#[derive(Debug)]
struct LogWriter(std::sync::Arc<std::sync::Mutex<Vec<u8>>>);
impl AsyncWrite for LogWriter {
    fn poll_write(self: Pin<&mut Self>, _: &mut Context<'_>, b: &[u8]) -> Poll<io::Result<usize>> { self.0.lock().unwrap().extend_from_slice(b); Poll::Ready(Ok(b.len())) }
    fn poll_flush(self: Pin<&mut Self>, _: &mut Context<'_>) -> Poll<io::Result<()>> { Poll::Ready(Ok(())) }
    fn poll_close(self: Pin<&mut Self>, _: &mut Context<'_>) -> Poll<io::Result<()>> { Poll::Ready(Ok(())) }
}

fn preamble_then_unknown() -> Vec<u8> {
    let mut v = vec![1, 1, 0, 1, 0, 8, 0, 0,  0, 1, 1, 0, 0, 0, 0, 0];   // BeginRequest id 1, Responder, KeepConn
    v.extend_from_slice(&[1, 4, 0, 1, 0, 0, 0, 0]);                       // empty Params: end of preamble
    v.extend_from_slice(&[1, 77, 0, 1, 0, 0, 0, 0]);                      // record of unknown type 77: a reply is owed
    v
}

#[test]
fn handler_read_must_not_wait_while_reply_is_owed() {
    let config = Config::with_conns(1.try_into().unwrap());
    let mut rp = request::Parser::new(&config);
    let bytes = preamble_then_unknown();
    rp.input_buffer()[..bytes.len()].copy_from_slice(&bytes);
    let y = rp.parse(bytes.len());
    assert!(y.done && y.output.is_empty());
    let sp = rp.into_stream_parser().unwrap();
    // the unknown-type record was read in the same transport read and is waiting in the buffer
    let log = std::sync::Arc::new(std::sync::Mutex::new(Vec::new()));
    let mut req = Request::new(sp, PendingReader, LogWriter(log.clone()));
    let waker = futures_util::task::noop_waker();
    let mut cx = Context::from_waker(&waker);
    let mut buf = [0u8; 16];
    let r = Pin::new(&mut req).poll_read(&mut cx, &mut buf);
    assert!(r.is_pending(), "no stdin data was sent");
    // The task is now suspended on the READER.  The peer waits for the Unknown-type reply before sending anything
    // else, so the reply must already be on the transport - otherwise both sides wait forever.
    let sent = log.lock().unwrap().clone();
    assert_eq!(sent, vec![1, 11, 0, 1, 0, 8, 0, 0, 77, 0, 0, 0, 0, 0, 0, 0], "reply to the unknown-type record was not sent before waiting for input");
}

struct ScriptReader { chunks: Vec<Vec<u8>>, next: usize }
impl AsyncRead for ScriptReader {
    fn poll_read(mut self: Pin<&mut Self>, _: &mut Context<'_>, buf: &mut [u8]) -> Poll<io::Result<usize>> {
        if self.next >= self.chunks.len() { return Poll::Pending; }     // peer waits for the reply before sending more
        let i = self.next; self.next += 1;
        let c = &self.chunks[i];
        buf[..c.len()].copy_from_slice(c);
        Poll::Ready(Ok(c.len()))
    }
}

#[test]
fn next_request_parser_must_process_handed_over_records_before_reading() {
    use std::future::Future;
    let config = Config::with_conns(1.try_into().unwrap());
    let runner = config.async_runner();
    let waker = futures_util::task::noop_waker();
    let mut cx = Context::from_waker(&waker);
    let token = { let f = runner.get_token(); futures_util::pin_mut!(f); match f.poll(&mut cx) { Poll::Ready(t) => t, Poll::Pending => panic!("no token") } };
    // one transport read delivers: a complete Authorizer request with KeepConn AND a record of unknown type 77
    let log = std::sync::Arc::new(std::sync::Mutex::new(Vec::new()));
    let mut first = vec![1, 1, 0, 1, 0, 8, 0, 0,  0, 2, 1, 0, 0, 0, 0, 0];
    first.extend_from_slice(&[1, 4, 0, 1, 0, 0, 0, 0]);
    first.extend_from_slice(&[1, 77, 0, 0, 0, 0, 0, 0]);
    let reader = ScriptReader { chunks: vec![first], next: 0 };
    let fut = token.run(reader, LogWriter(log.clone()), |_req| Box::pin(async { Ok(fastcgi_server::ExitStatus::SUCCESS) }));
    futures_util::pin_mut!(fut);
    for _ in 0..4 { if fut.as_mut().poll(&mut cx).is_ready() { break; } }
    let sent = log.lock().unwrap().clone();
    // stdout end, stderr end, EndRequest (8 + 8 + 16 bytes), then the reply to the unknown-type record must follow
    assert!(sent.len() >= 32, "request was not answered: {sent:?}");
    assert_eq!(&sent[32..], &[1, 11, 0, 0, 0, 8, 0, 0, 77, 0, 0, 0, 0, 0, 0, 0][..],
               "the connection task waits for client input although a complete record handed over by the finished request is unanswered");
}
