//! No-op replacement for `tracing` used only in the solver build (DESIGN.md §4 E1).
//! Every event macro expands to nothing (arguments are NOT evaluated), spans do nothing.
#![allow(clippy::all)]

#[macro_export] macro_rules! trace { ($($t:tt)*) => {{}}; }
#[macro_export] macro_rules! debug { ($($t:tt)*) => {{}}; }
#[macro_export] macro_rules! info { ($($t:tt)*) => {{}}; }
#[macro_export] macro_rules! warn { ($($t:tt)*) => {{}}; }
#[macro_export] macro_rules! error { ($($t:tt)*) => {{}}; }
#[macro_export] macro_rules! event_enabled { ($($t:tt)*) => { false }; }
#[macro_export] macro_rules! warn_span { ($($t:tt)*) => { $crate::Span }; }
#[macro_export] macro_rules! debug_span { ($($t:tt)*) => { $crate::Span }; }
#[macro_export] macro_rules! info_span { ($($t:tt)*) => { $crate::Span }; }

#[derive(Debug, Clone, Copy)]
pub struct Span;

#[derive(Debug, Clone, Copy, PartialEq, Eq)]
pub struct Level;
impl Level {
    pub const TRACE: Level = Level;
    pub const DEBUG: Level = Level;
    pub const INFO: Level = Level;
    pub const WARN: Level = Level;
    pub const ERROR: Level = Level;
}

pub trait Instrument: Sized {
    #[inline(always)]
    fn instrument(self, _span: Span) -> Self { self }
}
impl<T: Sized> Instrument for T {}
