// Harnesses for src/parser/request.rs (C01, C03, C04, C05, C06, C11).
// @requires protocol/nv.rs
// @requires parser/stream.rs
// One-step lemmas per state of the resumable state machine; every private field symbolic.
use super::*;
use std::num::NonZeroUsize;
use crate::verif_kani::{fixed_random_state, ensure_read_id, ref_next};

pub(crate) const B: usize = 24;

/// Accessors for harness modules outside parser::request.
pub(crate) fn x_parser(p: &Parser<'_>) -> (usize, usize, bool, bool) { (p.input_len, p.input.len(), matches!(p.state, State::Header(_)), p.output.is_empty()) }
pub(crate) fn x_byte(p: &Parser<'_>, i: usize) -> u8 { p.input[i] }
pub(crate) fn mk_header_parser<'a>(cfg: &'a Config, buf: [u8; B], input_len: usize) -> Parser<'a> {
    Parser { config: cfg, input: Box::new(buf), input_len, output: Vec::with_capacity(32), state: State::Header(HeaderState) }
}

fn cfg1() -> Config { Config { buffer_size: B, max_conns: NonZeroUsize::new(1).unwrap() } }

/// Remaining-slice offset relative to the start of `base` (slices returned by drive are sub-slices of the input).
fn consumed_of(base_ptr: usize, base_len: usize, rem: &[u8]) -> usize {
    if rem.is_empty() { base_len } else { (rem.as_ptr() as usize).wrapping_sub(base_ptr) }
}

fn skip_spec(payload: u16, padding: u8, len: usize) -> (bool, u16, u8, usize) {
    // -> (finished, payload', padding', consumed)
    let total = payload as usize + padding as usize;
    if len >= total { (true, 0, 0, total) }
    else if len < payload as usize { (false, payload - len as u16, padding, len) }
    else { (false, 0, padding - (len - payload as usize) as u8, len) }
}

// ------------------------------------------------------------------------------------------------ SkipState

// @harness name=c03_skip_state props=C03,C04,C01 tier=quick timeout=600
// @bound SkipState<HeaderState>: every payload_rem 0..65535 / padding_rem 0..255 (not both 0), input length 0..24 (contents irrelevant); plus the one-cut lemma for a symbolic cut
// @functions request::SkipState::drive, StateBuilder::into_skip
#[kani::proof]
#[kani::unwind(4)]
fn c03_skip_state() {
    let (payload, padding): (u16, u8) = (kani::any(), kani::any());
    kani::assume(payload != 0 || padding != 0);  // into_skip never builds an empty SkipState
    let mut buf: [u8; B] = kani::any();
    let n: usize = kani::any();
    kani::assume(n <= B);
    let base = buf.as_ptr() as usize;
    let s = SkipState { next: HeaderState, payload_rem: payload, padding_rem: padding };
    let r = s.drive(&mut buf[..n]);
    let (fin, p2, d2, c) = skip_spec(payload, padding, n);
    match r {
        Continue((rem, st)) => {
            assert!(fin, "skip finished early");
            assert!(consumed_of(base, n, rem) == c && rem.len() == n - c, "skip consumed a wrong number of bytes");
            assert!(matches!(st, State::Header(_)), "after skipping, the wrapped state must resume");
            kani::cover!(n == c, "record ends exactly at the end of the input");
            std::mem::forget(st);
        }
        Break((rem, st)) => {
            assert!(!fin, "skip not finished although all bytes are present");
            assert!(rem.is_empty(), "unfinished skip must consume everything");
            match &st { State::HeaderSkip(k) => assert!(k.payload_rem == p2 && k.padding_rem == d2, "remaining skip lengths wrong"),
                       _ => panic!("wrong state after partial skip") }
            std::mem::forget(st);
            kani::cover!(payload as usize > n, "inside the payload");
            kani::cover!((payload as usize) < n && padding > 0, "inside the padding");
            kani::cover!(payload == 65535 && padding == 255, "maximal record");
        }
    }
    // one-cut lemma on the specification (the implementation equals it for every input, above)
    let k: usize = kani::any();
    kani::assume(k <= n);
    let (f1, p1, d1, c1) = skip_spec(payload, padding, k);
    if !f1 {
        let (f2, p22, d22, c2) = skip_spec(p1, d1, n - k);
        assert!(f2 == fin && (fin || (p22 == p2 && d22 == d2)) && c1 + c2 == c, "chunking changes the outcome of a skip");
    } else { assert!(fin && c1 == c); }
}

// @harness name=c03_into_skip props=C03,C04 tier=quick timeout=300
// @bound every (payload, padding): into_skip wraps iff at least one is non-zero; all three wrapped state kinds
// @functions StateBuilder::into_skip for HeaderState
#[kani::proof]
fn c03_into_skip() {
    let (payload, padding): (u16, u8) = (kani::any(), kani::any());
    let st = HeaderState.into_skip(payload, padding);
    if payload == 0 && padding == 0 { assert!(matches!(&st, State::Header(_))); }
    else { assert!(matches!(&st, State::HeaderSkip(SkipState { payload_rem, padding_rem, .. }) if *payload_rem == payload && *padding_rem == padding)); }
    std::mem::forget(st);
    kani::cover!(payload == 0 && padding == 1, "padding only");
    kani::cover!(payload == 0 && padding == 0, "nothing to skip");
}

// ------------------------------------------------------------------------------------------------ GetValuesState

fn getvalues_case<const N: usize>() {

    let cfg = cfg1();
    let (payload, padding): (u16, u8) = (kani::any(), kani::any());
    let v0: u8 = kani::any();
    kani::assume(v0 < 8);
    let mut buf: [u8; N] = kani::any();
    let orig = buf;
    let n: usize = N;
    let base = buf.as_ptr() as usize;
    let mut out: Vec<u8> = Vec::with_capacity(16);
    out.push(0xD1);
    let s = GetValuesState { next: HeaderState, vars: fcgi::ProtocolVariables::from_bits_truncate(v0), payload_rem: payload, padding_rem: padding };
    let r = s.drive(&mut buf[..n], &mut out, &cfg);
    // reference
    let blen = if (payload as usize) < n { payload as usize } else { n };
    let body = &orig[..blen];
    let (mut o, mut vars) = (0usize, v0);
    while let Some((h, nl, vl)) = ref_next(body, o) {
        if nl == 1 { match body[o + h] { b'A' => vars |= 1, b'B' => vars |= 2, b'C' => vars |= 4, _ => {} } }
        o += h + nl + vl;
    }
    let body_done = n >= payload as usize;
    if !body_done {
        assert!(out.len() == 1, "reply before the body is complete");
        match &r {
            Break((rem, State::HeaderValues(g))) => {
                assert!(consumed_of(base, n, rem) == o && rem.len() == n - o, "only whole pairs may be consumed from a partial body");
                assert!(g.payload_rem == payload - o as u16 && g.padding_rem == padding && g.vars.bits() == vars, "partial GetValues state wrong");
                kani::cover!(o == 0 && n > 0, "incomplete first pair kept");
                if N >= 3 { kani::cover!(o > 0 && o < n, "pair consumed, tail kept"); }
            }
            _ => panic!("partial GetValues body must yield for more input"),
        }
    } else {
        if payload > 0 {
            assert!(out.len() == 5 && out[0] == 0xD1 && out[1] == 0xFA && out[2] == vars && out[3] == 1 && out[4] == 0xFB,
                    "exactly one reply listing the union of recognised names, appended to the output");
        } else { assert!(out.len() == 1, "empty GetValues body must not be answered"); }
        let after = n - payload as usize;
        match &r {
            Continue((rem, st)) => {
                assert!(after >= padding as usize, "continued although padding is incomplete");
                assert!(rem.len() == after - padding as usize && consumed_of(base, n, rem) == payload as usize + padding as usize);
                assert!(matches!(st, State::Header(_)), "wrapped state must resume after the record");
                kani::cover!(payload > 0 && o < blen, "body ending in an incomplete pair");
                if N >= 3 { kani::cover!(vars != v0, "name recognised"); }
                if N >= 9 { kani::cover!(vars == 7 && v0 == 0, "all names in one record"); }
            }
            Break((rem, State::HeaderValues(g))) => {
                assert!(after < padding as usize && rem.is_empty(), "padding wait must consume everything");
                assert!(g.payload_rem == 0 && g.padding_rem == padding - after as u8, "remaining padding wrong");
                kani::cover!(payload > 0, "reply sent, padding still outstanding");
            }
            _ => panic!("wrong result shape"),
        }
    }
    std::mem::forget(r);
    std::mem::forget(out);
}

// @harness name=c04_getvalues_state_2 props=C04,C03,C06 tier=quick timeout=900 rmbody=ioerr,nogrow mem=24 est=11 dead=3 unwindset=ProtocolVariables>::extend::<:3;NVIter<&.u8.>.as.std::iter::Iterator>::try_fold::<:3;verif_kani::getvalues_case::<:3
// @bound GetValuesState<HeaderState>: any accumulated set, payload_rem 0..65535, padding_rem 0..255, input of exactly 2 symbolic bytes (shorter bodies via payload_rem); parse_name / write_response replaced by the E5 models; E8 (io::Error drop = no-op)
// @functions request::GetValuesState::drive, NVIter<&[u8]>::next, parser::parse_nv_var
#[kani::proof]
#[kani::unwind(6)]
#[kani::stub(fcgi::ProtocolVariables::parse_name, crate::verif_kani::parse_name_model)]
#[kani::stub(fcgi::ProtocolVariables::write_response, crate::verif_kani::write_response_model)]
fn c04_getvalues_state_2() { getvalues_case::<2>(); }

// @harness name=c04_getvalues_state_3 props=C04,C03,C06 tier=quick timeout=900 rmbody=ioerr,nogrow mem=24 est=11 dead=1 unwindset=ProtocolVariables>::extend::<:3;NVIter<&.u8.>.as.std::iter::Iterator>::try_fold::<:3;verif_kani::getvalues_case::<:3
// @bound GetValuesState<HeaderState>: any accumulated set, payload_rem 0..65535, padding_rem 0..255, input of exactly 3 symbolic bytes (shorter bodies via payload_rem); parse_name / write_response replaced by the E5 models; E8 (io::Error drop = no-op)
// @functions request::GetValuesState::drive, NVIter<&[u8]>::next, parser::parse_nv_var
#[kani::proof]
#[kani::unwind(6)]
#[kani::stub(fcgi::ProtocolVariables::parse_name, crate::verif_kani::parse_name_model)]
#[kani::stub(fcgi::ProtocolVariables::write_response, crate::verif_kani::write_response_model)]
fn c04_getvalues_state_3() { getvalues_case::<3>(); }

// @harness name=c04_getvalues_state_4 props=C04,C03 tier=thorough timeout=2400 rmbody=ioerr,nogrow mem=24 est=11 dead=1 unwindset=ProtocolVariables>::extend::<:4;NVIter<&.u8.>.as.std::iter::Iterator>::try_fold::<:4;verif_kani::getvalues_case::<:4
// @bound GetValuesState<HeaderState>: any accumulated set, payload_rem 0..65535, padding_rem 0..255, input of exactly 4 symbolic bytes (shorter bodies via payload_rem); parse_name / write_response replaced by the E5 models; E8 (io::Error drop = no-op)
// @functions request::GetValuesState::drive, NVIter<&[u8]>::next, parser::parse_nv_var
#[kani::proof]
#[kani::unwind(6)]
#[kani::stub(fcgi::ProtocolVariables::parse_name, crate::verif_kani::parse_name_model)]
#[kani::stub(fcgi::ProtocolVariables::write_response, crate::verif_kani::write_response_model)]
fn c04_getvalues_state_4() { getvalues_case::<4>(); }

// @harness name=c04_getvalues_state_6 props=C04,C03 tier=thorough timeout=6000 rmbody=ioerr,nogrow mem=24 est=11 dead=1 unwindset=ProtocolVariables>::extend::<:5;NVIter<&.u8.>.as.std::iter::Iterator>::try_fold::<:5;verif_kani::getvalues_case::<:5
// @bound GetValuesState<HeaderState>: any accumulated set, payload_rem 0..65535, padding_rem 0..255, input of exactly 6 symbolic bytes (shorter bodies via payload_rem); parse_name / write_response replaced by the E5 models; E8 (io::Error drop = no-op)
// @functions request::GetValuesState::drive, NVIter<&[u8]>::next, parser::parse_nv_var
#[kani::proof]
#[kani::unwind(6)]
#[kani::stub(fcgi::ProtocolVariables::parse_name, crate::verif_kani::parse_name_model)]
#[kani::stub(fcgi::ProtocolVariables::write_response, crate::verif_kani::write_response_model)]
fn c04_getvalues_state_6() { getvalues_case::<6>(); }

// ------------------------------------------------------------------------------------------------ HeaderState

fn is_rec16(out: &[u8], at: usize, rtype: u8, id: u16, body0: u8, body4: u8) -> bool {
    out.len() >= at + 16 && out[at] == 1 && out[at + 1] == rtype && out[at + 2] == (id >> 8) as u8 && out[at + 3] == id as u8
        && out[at + 4] == 0 && out[at + 5] == 8 && out[at + 6] == 0 && out[at + 7] == 0
        && out[at + 8] == body0 && out[at + 9] == 0 && out[at + 10] == 0 && out[at + 11] == 0
        && out[at + 12] == body4 && out[at + 13] == 0 && out[at + 14] == 0 && out[at + 15] == 0
}

// @harness name=c01_header_state props=C01,C03,C04,C11 tier=quick timeout=2400
// @bound HeaderState: input of 0..24 symbolic bytes (every header, every BeginRequest body), 1 byte of pending output
// @functions request::HeaderState::drive, try_head!, to_array!, RecordHeader::from_bytes, BeginRequest::from_bytes, Request::new
#[kani::proof]
#[kani::unwind(18)]
#[kani::stub(std::hash::RandomState::new, fixed_random_state)]
fn c01_header_state() {
    let mut buf: [u8; B] = kani::any();
    let d = buf;
    let n: usize = kani::any();
    kani::assume(n <= B);
    let base = buf.as_ptr() as usize;
    let mut out: Vec<u8> = Vec::with_capacity(32);
    out.push(0xD1);
    let r = HeaderState.drive(&mut buf[..n], &mut out);
    let (rem_len, consumed, is_cont, st) = match &r {
        Continue((rem, st)) => (rem.len(), consumed_of(base, n, rem), true, st),
        Break((rem, st)) => (rem.len(), consumed_of(base, n, rem), false, st),
    };
    assert!(consumed + rem_len == n, "remaining slice is not a suffix of the input");
    assert!(out[0] == 0xD1, "pending output damaged");
    let quiet = out.len() == 1;
    if n < 8 {
        assert!(!is_cont && consumed == 0 && matches!(st, State::Header(_)) && quiet, "short header must wait without consuming");
        kani::cover!(n == 7, "header one byte short");
    } else {
        let (ver, ty) = (d[0], d[1]);
        let id = ((d[2] as u16) << 8) | d[3] as u16;
        let len = ((d[4] as u16) << 8) | d[5] as u16;
        let pad = d[6];
        let skipped = |st: &State| if len == 0 && pad == 0 { matches!(st, State::Header(_)) }
            else { matches!(st, State::HeaderSkip(k) if k.payload_rem == len && k.padding_rem == pad) };
        if ver != 1 {
            assert!(!is_cont && consumed == 0 && quiet && matches!(st, State::Fatal(Error::UnknownVersion(v)) if *v == ver), "unknown version must be fatal");
            kani::cover!(ty > 11, "bad version and bad type: version wins");
        } else if ty == 0 || ty > 11 {
            assert!(is_cont && consumed == 8 && skipped(st), "unknown type must be skipped");
            assert!(out.len() == 17 && is_rec16(&out, 1, 11, id, ty, 0), "exactly one Unknown(type) reply for the record's id");
            kani::cover!(len == 0 && pad == 0, "unknown type, empty record");
        } else if ty == 1 {
            if len != 8 {
                assert!(!is_cont && quiet && matches!(st, State::Fatal(Error::InvalidRequestLen(l)) if *l == len), "BeginRequest with a wrong length must be fatal");
                kani::cover!(len == 0, "BeginRequest with length 0");
            } else if n < 16 {
                assert!(!is_cont && consumed == 0 && quiet && matches!(st, State::Header(_)), "incomplete BeginRequest body must wait without consuming");
                kani::cover!(n == 15, "body one byte short");
            } else {
                let role = ((d[8] as u16) << 8) | d[9] as u16;
                if role == 0 || role > 3 {
                    assert!(is_cont && consumed == 16, "unknown role must be rejected and skipped");
                    assert!(out.len() == 17 && is_rec16(&out, 1, 3, id, 0, 3), "exactly one EndRequest(UnknownRole, 0) for the record's id");
                    assert!(if pad == 0 { matches!(st, State::Header(_)) } else { matches!(st, State::HeaderSkip(k) if k.payload_rem == 0 && k.padding_rem == pad) },
                            "padding of the rejected BeginRequest must be skipped");
                    kani::cover!(id == 0, "unknown role with id 0: role is reported first");
                } else if id == 0 {
                    assert!(!is_cont && quiet && matches!(st, State::Fatal(Error::NullRequest)), "BeginRequest with id 0 must be fatal");
                    kani::cover!(true, "null request id");
                } else {
                    assert!(is_cont && consumed == 16 && quiet, "valid BeginRequest must be consumed silently");
                    match st {
                        State::Params(p) => {
                            assert!(p.payload_rem == 0 && p.padding_rem == pad, "padding of the BeginRequest record must be skipped by the Params state");
                            assert!(p.inner.buffer.is_empty());
                            assert!(p.inner.req.request_id.get() == id, "request id not the one sent");
                            assert!(u16::from(p.inner.req.role) == role, "role not the one sent");
                            assert!(u8::from(p.inner.req.flags) == d[10], "flags not the byte sent");
                            assert!(p.inner.req.env_len() == 0);
                        }
                        _ => panic!("valid BeginRequest must lead to the Params state"),
                    }
                    kani::cover!(pad == 255 && d[10] == 0xff, "all flag bits and maximal padding");
                    kani::cover!(id == 0xffff && role == 3, "max id, Filter");
                }
            }
        } else if ty == 9 && id == 0 {
            assert!(is_cont && consumed == 8 && quiet, "GetValues header must be consumed silently");
            assert!(matches!(st, State::HeaderValues(g) if g.payload_rem == len && g.padding_rem == pad && g.vars.bits() == 0), "GetValues must start with an empty set");
            kani::cover!(len == 0, "GetValues with empty body");
        } else {
            assert!(is_cont && consumed == 8 && quiet && skipped(st), "other records must be skipped silently before a request starts");
            kani::cover!(ty == 2, "stale AbortRequest");
            kani::cover!(ty == 4 || ty == 5, "stale Params/Stdin of a finished request");
            kani::cover!(ty == 9 && id != 0, "GetValues with a non-null id");
        }
    }
    std::mem::forget(r);
    std::mem::forget(out);
}

// ------------------------------------------------------------------------------------------------ Parser::parse glue

fn mk_parser<'a>(cfg: &'a Config, buf: [u8; B], input_len: usize, state: State) -> Parser<'a> {
    Parser { config: cfg, input: Box::new(buf), input_len, output: Vec::with_capacity(32), state }
}

// @harness name=c05_move_input props=C05,C03 tier=quick timeout=600
// @bound 24-byte input buffer, every input_len 0..24 and remaining length 0..input_len
// @functions request::Parser::move_input, request::Parser::input_buffer
#[kani::proof]
#[kani::unwind(2)]
fn c05_move_input() {
    let cfg = cfg1();
    let buf: [u8; B] = kani::any();
    let il: usize = kani::any();
    kani::assume(il <= B);
    let rem: usize = kani::any();
    kani::assume(rem <= il);
    let mut p = mk_parser(&cfg, buf, il, State::Header(HeaderState));
    p.move_input(rem);
    assert!(p.input_len == rem);
    let i: usize = kani::any();
    if i < rem { assert!(p.input[i] == buf[il - rem + i], "unconsumed tail not preserved in order at the front of the buffer"); }
    assert!(p.input_buffer().len() == B - rem);
    kani::cover!(rem > 0 && rem < il && il == B, "partial consumption of a full buffer");
    kani::cover!(rem == il && il > 0, "nothing consumed");
    kani::cover!(rem == 0 && il > 0, "everything consumed");
    std::mem::forget(p);
}

// @harness name=c03_parse_sticky props=C03,C06,C05 tier=quick timeout=900
// @bound final states Fatal(e) for every parser::Error kind the request parser produces: parse(n) for every n, any buffered length; output cleared, state and input untouched
// @functions request::Parser::parse, request::State::drive, request::Parser::into_request
#[kani::proof]
#[kani::unwind(4)]
fn c03_parse_sticky() {
    let cfg = cfg1();
    let buf: [u8; B] = kani::any();
    let il: usize = kani::any();
    kani::assume(il <= B);
    let k: u8 = kani::any();
    let err = match k {
        0 => Error::StuckOnInput, 1 => Error::UnknownVersion(kani::any()), 2 => Error::InvalidRequestLen(kani::any()),
        3 => Error::NullRequest, 4 => Error::Paniced, _ => Error::Protocol(fcgi::Error::UnknownRole(kani::any())),
    };
    let mut p = mk_parser(&cfg, buf, il, State::Fatal(err));
    p.output.push(0xAA);   // stale output of an earlier call
    let n: usize = kani::any();
    kani::assume(n <= B - il);
    let (done, outlen) = { let y = p.parse(n); (y.done, y.output.len()) };
    assert!(done, "a fatal error must be reported again by every later call");
    assert!(outlen == 0, "no output after a fatal error");
    assert!(p.input_len == il + n, "input must be left untouched");
    let same = match (&p.state, k) {
        (State::Fatal(Error::StuckOnInput), 0) | (State::Fatal(Error::UnknownVersion(_)), 1) | (State::Fatal(Error::InvalidRequestLen(_)), 2)
        | (State::Fatal(Error::NullRequest), 3) | (State::Fatal(Error::Paniced), 4) => true,
        (State::Fatal(Error::Protocol(_)), _) => k >= 5,
        _ => false,
    };
    assert!(same, "fatal state changed");
    kani::cover!(n > 0 && il + n == B, "buffer filled after the error");
    // consuming the parser reports the same error
    match p.into_request() { Err(e) => { std::mem::forget(e); } Ok(x) => { std::mem::forget(x); panic!("into_request succeeded after a fatal error"); } }
}

// @harness name=c05_parse_after_done props=C05,C03 tier=quick timeout=900 rmbody=nodropreq
// @bound final state Done(request): parse(n) for every n and any buffered length 0..24: still done, no output, every announced byte accounted for, and into_request() hands back exactly the buffered + newly announced bytes (a caller may keep feeding after `done`; those bytes belong to the next consumer)
// @functions request::Parser::parse (final states), request::Parser::into_request
#[kani::proof]
#[kani::unwind(4)]
#[kani::stub(std::hash::RandomState::new, fixed_random_state)]
fn c05_parse_after_done() {
    let cfg = cfg1();
    let buf: [u8; B] = kani::any();
    let il: usize = kani::any();
    kani::assume(il <= B);
    let mut p = mk_parser(&cfg, buf, il, State::Done(fresh_req()));
    let n: usize = kani::any();
    kani::assume(n <= B - il);
    let (done, outlen) = { let y = p.parse(n); (y.done, y.output.len()) };
    assert!(done && outlen == 0, "a finished preamble stays finished, without output");
    assert!(p.input_len == il + n, "C05: bytes announced after `done` must stay in the buffer for the next consumer");
    assert!(matches!(&p.state, State::Done(_)), "final state changed");
    match p.into_request() {
        Ok((req, rest)) => {
            assert!(rest.len() == il + n, "C05: leftover input is not exactly the unread bytes");
            let j: usize = kani::any();
            if j < il + n { assert!(rest[j] == buf[j], "C05: leftover bytes changed"); }
            kani::cover!(n > 0 && il > 0, "input fed after done is handed over behind the look-ahead");
            std::mem::forget(req);
        }
        Err(e) => { std::mem::forget(e); panic!("into_request failed for a finished preamble"); }
    }
}

/// Stand-in for `State::drive` in the harness of the `Parser::parse` glue: consumes an arbitrary prefix and
/// returns an arbitrary non-final or final state (drive itself is covered state by state elsewhere).
static mut DRIVE_KIND: u8 = 0;      // what the drive stub returned: 0 Header, 1 HeaderSkip, 2 Fatal(NullRequest), 3 Done
fn drive_any<'a>(_st: State, data: &'a mut [u8], _out: &mut Vec<u8>, _config: &Config) -> SResult<'a> {
    let k: usize = kani::any();
    kani::assume(k <= data.len());
    let kind: u8 = kani::any();
    unsafe { DRIVE_KIND = if kind > 3 { 3 } else { kind }; }
    let st = match kind {
        0 => State::Header(HeaderState),
        1 => State::HeaderSkip(SkipState { next: HeaderState, payload_rem: kani::any(), padding_rem: kani::any() }),
        2 => State::Fatal(Error::NullRequest),
        _ => State::Done(Request { request_id: std::num::NonZeroU16::new(1).unwrap(), role: fcgi::Role::Responder,
                                    flags: fcgi::RequestFlags::from(0), params: std::collections::HashMap::new() }),
    };
    (&mut data[k..], st)
}

// @harness name=c06_stuck_iff_full props=C06,C03,C05 tier=quick timeout=2400
// @bound Parser::parse glue for EVERY outcome of State::drive (drive replaced by a nondeterministic stub: any consumed prefix, any non-final/final state); 24-byte buffer, every input_len and new_input
// @functions request::Parser::parse, request::Parser::move_input, request::Parser::input_buffer
#[kani::proof]
#[kani::unwind(4)]
#[kani::stub(std::hash::RandomState::new, fixed_random_state)]
#[kani::stub(State::drive, drive_any)]
fn c06_stuck_iff_full() {
    let cfg = cfg1();
    let buf: [u8; B] = kani::any();
    let il: usize = kani::any();
    kani::assume(il <= B);
    let n: usize = kani::any();
    kani::assume(n <= B - il);
    let mut p = mk_parser(&cfg, buf, il, State::Header(HeaderState));
    p.output.push(0xAA);
    let (done, outlen) = { let y = p.parse(n); (y.done, y.output.len()) };
    assert!(outlen == 0, "stale output of the previous call must be cleared");
    let rem = p.input_len;
    assert!(rem <= il + n);
    let i: usize = kani::any();
    if i < rem { assert!(p.input[i] == buf[il + n - rem + i], "bytes not consumed by this call must be carried over in order"); }
    let stuck = matches!(p.state, State::Fatal(Error::StuckOnInput));
    let fin = matches!(p.state, State::Done(_) | State::Fatal(_));
    assert!(done == fin, "done must be reported exactly in a final state");
    if stuck { assert!(rem == B, "StuckOnInput although the buffer is not full"); }
    if !done { assert!(!p.input_buffer().is_empty(), "an unfinished parser must always offer input space"); }
    if rem == B { assert!(done, "a full buffer of unconsumable bytes must be reported in this very call"); }
    // a final outcome of the state machine must never be replaced (C03: final states are absorbing)
    match unsafe { DRIVE_KIND } {
        2 => assert!(matches!(p.state, State::Fatal(Error::NullRequest)), "a fatal error was replaced by another state"),
        3 => assert!(matches!(p.state, State::Done(_)), "a finished request was replaced by another state"),
        _ => {}
    }
    kani::cover!(stuck, "stuck detected");
    kani::cover!(rem == B && !stuck, "full buffer but already final");
    kani::cover!(!done && rem == B - 1, "one byte of space left");
    std::mem::forget(p);
}

// ------------------------------------------------------------------------------------------------ Params: ghost log (E4)

// E4: `make_cgivar` (lossy UTF-8 + uppercase + phf interning) is replaced in the FRAMING harnesses by a model that
// records the raw name bytes it was given and returns the i-th of four fixed interned names, so that the values
// stored in the environment can be read back per pair.  The real `make_cgivar` is checked on its own (c01_make_cgivar_*).
const GK: usize = 4;     // max pairs per harness
const GN: usize = 14;    // max name / value bytes recorded
static mut G_CNT: usize = 0;
static mut G_NAMES: [[u8; GN]; GK] = [[0; GN]; GK];
static mut G_LENS: [usize; GK] = [0; GK];
const KEYS: [cgi::StaticVarName; GK] = [cgi::AUTH_TYPE, cgi::CONTENT_LENGTH, cgi::PATH_INFO, cgi::HTTP2];

fn make_cgivar_model(name: &[u8]) -> cgi::OwnedVarName {
    unsafe {
        let i = G_CNT;
        assert!(i < GK, "harness bound: more pairs than the ghost log holds");
        assert!(name.len() <= GN, "harness bound: name longer than the ghost log holds");
        let mut j = 0;
        while j < name.len() { G_NAMES[i][j] = name[j]; j += 1; }
        G_LENS[i] = name.len();
        G_CNT = i + 1;
        cgi::OwnedVarName::from(KEYS[i])
    }
}
fn g_cnt() -> usize { unsafe { G_CNT } }
fn g_name_is(i: usize, exp: &[u8]) -> bool {
    unsafe {
        if G_LENS[i] != exp.len() { return false; }
        let mut j = 0;
        while j < exp.len() { if G_NAMES[i][j] != exp[j] { return false; } j += 1; }
        true
    }
}
fn val_is(req: &Request, i: usize, exp: &[u8]) -> bool {
    match req.params.get(&cgi::OwnedVarName::from(KEYS[i])) {
        Some(v) => crate::verif_kani::eq_bytes(v, exp),
        None => false,
    }
}

// E4b: `HashMap::insert` replaced by a model that records the value bytes (real hashbrown probing makes CBMC explore
// all 16 lanes of a control group with key comparisons on uninitialised slots: > 10 min per insert).  Map semantics
// (last value wins, case-insensitive keys) are std's, given lawful Eq/Hash = C19.
static mut G_VCNT: usize = 0;
static mut G_VALS: [[u8; GN]; GK] = [[0; GN]; GK];
static mut G_VLENS: [usize; GK] = [0; GK];
fn map_insert_model<K, V, S, A: std::alloc::Allocator>(_m: &mut std::collections::HashMap<K, V, S, A>, k: K, v: V) -> Option<V> {
    unsafe {
        assert!(std::mem::size_of::<V>() == std::mem::size_of::<SmallBytes>());
        let sv: &SmallBytes = &*(&v as *const V as *const SmallBytes);
        let i = G_VCNT;
        assert!(i < GK && sv.len() <= GN, "harness bound: ghost value log");
        let mut j = 0;
        while j < sv.len() { G_VALS[i][j] = sv[j]; j += 1; }
        G_VLENS[i] = sv.len();
        G_VCNT = i + 1;
    }
    std::mem::forget(k);
    std::mem::forget(v);
    None
}
fn g_vcnt() -> usize { unsafe { G_VCNT } }
fn g_val_is(i: usize, exp: &[u8]) -> bool {
    unsafe {
        if G_VLENS[i] != exp.len() { return false; }
        let mut j = 0;
        while j < exp.len() { if G_VALS[i][j] != exp[j] { return false; } j += 1; }
        true
    }
}

fn fresh_req() -> Request {
    let id: u16 = kani::any();
    kani::assume(id != 0);
    Request { request_id: std::num::NonZeroU16::new(id).unwrap(), role: fcgi::Role::Responder,
              flags: fcgi::RequestFlags::from(0), params: std::collections::HashMap::new() }
}

fn buffered_case<const BL: usize, const DN: usize>() {
    let pre: [u8; BL] = kani::any();
    let mut data: [u8; DN] = kani::any();
    let dn: usize = kani::any();
    kani::assume(dn <= DN);
    let rec_end: bool = kani::any();
    // invariant of `buffer`: a non-empty, strictly incomplete prefix of a pair
    kani::assume(ref_next(&pre, 0).is_none());
    let mut whole = [0u8; 20];
    let mut i = 0; while i < BL { whole[i] = pre[i]; i += 1; }
    let mut i = 0; while i < DN { if i < dn { whole[BL + i] = data[i]; } i += 1; }
    let wl = BL + dn;
    let mut inner = ParamsStateInner { req: fresh_req(), buffer: Vec::with_capacity(32) };
    inner.buffer.extend_from_slice(&pre);
    let base = data.as_ptr() as usize;
    let rest_len = { let rest = inner.parse_buffered(&mut data[..dn], rec_end); assert!(consumed_of(base, dn, rest) + rest.len() == dn, "returned slice is not a suffix of the input"); rest.len() };
    let consumed = dn - rest_len;
    match ref_next(&whole[..wl], 0) {
        Some((h, nl, vl)) => {
            let total = h + nl + vl;
            assert!(consumed == total - BL, "reassembled pair must consume exactly its own bytes");
            assert!(inner.buffer.is_empty(), "buffer must be empty after a completed pair");
            assert!(g_cnt() == 1 && g_name_is(0, &whole[h..h + nl]), "name handed on is not the transmitted name");
            assert!(g_vcnt() == 1 && g_val_is(0, &whole[h + nl..total]), "value stored is not the transmitted value");
            kani::cover!(h == 8, "two 4-byte length prefixes");
            kani::cover!(BL < h && h == 5, "cut inside a 4-byte length prefix");
            kani::cover!(BL > h && BL < h + nl, "cut inside the name");
            kani::cover!(BL > h + nl, "cut inside the value");
            kani::cover!(BL == h, "cut right after the length prefixes");
            kani::cover!(consumed < dn, "further data follows the pair");
        }
        None => {
            assert!(g_cnt() == 0 && g_vcnt() == 0, "incomplete pair must not reach the environment");
            let bl2 = inner.buffer.len();
            assert!(bl2 == BL + consumed, "bytes lost or duplicated between buffer and input");
            let j: usize = kani::any();
            if j < bl2 { assert!(inner.buffer[j] == whole[j], "buffer is not the prefix of the pair's bytes"); }
            if rec_end { assert!(rest_len == 0, "at the end of a record the partial pair must move to the buffer entirely"); }
            kani::cover!(rec_end && dn > 0, "record ends inside the pair again (pair spread over 3+ records)");
            kani::cover!(!rec_end && consumed == 0 && dn > 0, "not enough data for the length prefixes: nothing consumed");
            kani::cover!(!rec_end && consumed > 0, "length prefix bytes moved, body still incomplete");
        }
    }
    std::mem::forget(inner);
}

macro_rules! buffered_harness {
    ($name:ident, $bl:expr, $dn:expr) => {
        #[kani::proof]
        #[kani::unwind(18)]
        #[kani::stub(std::hash::RandomState::new, fixed_random_state)]
        #[kani::stub(ParamsStateInner::make_cgivar, make_cgivar_model)]
        #[kani::stub(std::collections::HashMap::insert, map_insert_model)]
        #[kani::stub(smallvec::SmallVec::with_capacity, crate::verif_kani::smallvec_with_capacity_model)]
        fn $name() { buffered_case::<$bl, $dn>(); }
    };
}

// @harness name=c01_parse_buffered_1 props=C01,C03,C05 tier=quick timeout=900 rmbody=ioerr,nogrow dead=4
// @bound buffer = 1 symbolic byte (incomplete pair prefix), new data 0..6 symbolic bytes, rec_end symbolic; make_cgivar = E4 model; E8
// @functions ParamsStateInner::parse_buffered, try_fill!, VarInt::read
buffered_harness!(c01_parse_buffered_1, 1, 6);
// @harness name=c01_parse_buffered_2 props=C01,C03,C05 tier=quick timeout=900 rmbody=ioerr,nogrow dead=2
// @bound buffer = 2 symbolic bytes (incomplete pair prefix), new data 0..6 symbolic bytes, rec_end symbolic; make_cgivar = E4 model; E8
// @functions ParamsStateInner::parse_buffered, try_fill!, VarInt::read
buffered_harness!(c01_parse_buffered_2, 2, 6);
// @harness name=c01_parse_buffered_3 props=C01,C03,C05 tier=quick timeout=900 rmbody=ioerr,nogrow dead=1
// @bound buffer = 3 symbolic bytes (incomplete pair prefix), new data 0..6 symbolic bytes, rec_end symbolic; make_cgivar = E4 model; E8
// @functions ParamsStateInner::parse_buffered, try_fill!, VarInt::read
buffered_harness!(c01_parse_buffered_3, 3, 6);
// @harness name=c01_parse_buffered_5 props=C01,C03,C05 tier=quick timeout=900 rmbody=ioerr,nogrow dead=1
// @bound buffer = 5 symbolic bytes (incomplete pair prefix), new data 0..6 symbolic bytes, rec_end symbolic; make_cgivar = E4 model; E8
// @functions ParamsStateInner::parse_buffered, try_fill!, VarInt::read
buffered_harness!(c01_parse_buffered_5, 5, 6);
// @harness name=c01_parse_buffered_8 props=C01,C03,C05 tier=thorough timeout=3000 rmbody=ioerr,nogrow dead=2
// @bound buffer = 8 symbolic bytes (e.g. two complete 4-byte prefixes), new data 0..6 symbolic bytes, rec_end symbolic; make_cgivar = E4 model; E8
// @functions ParamsStateInner::parse_buffered, try_fill!, VarInt::read
buffered_harness!(c01_parse_buffered_8, 8, 6);

// ------------------------------------------------------------------------------------------------ parse_stream (buffer empty)

fn stream_case<const DN: usize, const REALMAP: bool>() {
    let mut data: [u8; DN] = kani::any();
    let orig = data;
    let rec_end: bool = kani::any();
    let mut inner = ParamsStateInner { req: fresh_req(), buffer: Vec::with_capacity(64) };  // pre-sized: reserve(max(len, 64)) does not reallocate
    inner.req.params = std::collections::HashMap::with_capacity(40);     // as Request::new does
    let consumed = inner.parse_stream(&mut data[..], rec_end);
    // reference: decode whole pairs from the front
    let mut o = 0usize;
    let mut k = 0usize;
    while let Some((h, nl, vl)) = ref_next(&orig, o) {
        assert!(k < g_cnt() && g_name_is(k, &orig[o + h..o + h + nl]), "names must reach make_cgivar in wire order, byte for byte");
        if REALMAP { assert!(val_is(&inner.req, k, &orig[o + h + nl..o + h + nl + vl]), "value stored for a pair differs from the wire bytes"); }
        o += h + nl + vl;
        k += 1;
    }
    assert!(g_cnt() == k && (!REALMAP || inner.req.params.len() == k), "number of pairs delivered differs from the number of complete pairs");
    if rec_end {
        assert!(consumed == DN, "at the end of a record every byte must be consumed");
        assert!(inner.buffer.len() == DN - o, "the incomplete tail must be buffered completely");
        let j: usize = kani::any();
        if j < DN - o { assert!(inner.buffer[j] == orig[o + j], "buffered tail differs from the wire bytes"); }
        kani::cover!(o < DN && k >= 1, "pairs, then a tail crossing the record boundary");
        kani::cover!(o == DN && k >= 1, "record ends exactly at a pair boundary");
    } else {
        assert!(consumed == o && inner.buffer.is_empty(), "inside a record only whole pairs may be consumed and nothing buffered");
        kani::cover!(o < DN && k >= 1, "incomplete tail left in the input buffer");
        kani::cover!(k == 0, "no complete pair yet");
    }
    std::mem::forget(inner);
}

macro_rules! stream_harness {
    ($name:ident, $dn:expr, $real:expr) => {
        #[kani::proof]
        #[kani::unwind(18)]
        #[kani::stub(std::hash::RandomState::new, fixed_random_state)]
        #[kani::stub(ParamsStateInner::make_cgivar, make_cgivar_model)]
        fn $name() { stream_case::<$dn, $real>(); }
    };
}

// @harness name=c01_parse_stream_3 props=C01,C03,C06 tier=quick timeout=900 rmbody=ioerr,nogrow,nomap unwindset=NVIter<&mut..u8.>.as.std::iter::Iterator>::try_fold::<:3
// @bound empty carry-over buffer, record data of exactly 3 symbolic bytes, rec_end symbolic; make_cgivar = E4 model; map insertion = no-op (E4c: names observed, values not); E8
// @functions ParamsStateInner::parse_stream, NVIter<&mut [u8]>::next
stream_harness!(c01_parse_stream_3, 3, false);
// @harness name=c01_parse_stream_5 props=C01,C03,C06 tier=quick timeout=900 rmbody=ioerr,nogrow,nomap unwindset=NVIter<&mut..u8.>.as.std::iter::Iterator>::try_fold::<:4
// @bound empty carry-over buffer, record data of exactly 5 symbolic bytes (<= 2 pairs), rec_end symbolic; make_cgivar = E4 model; map insertion = no-op (E4c); E8
// @functions ParamsStateInner::parse_stream, NVIter<&mut [u8]>::next
stream_harness!(c01_parse_stream_5, 5, false);
// @harness name=c01_parse_stream_7 props=C01,C03,C06 tier=quick timeout=900 rmbody=ioerr,nogrow,nomap unwindset=NVIter<&mut..u8.>.as.std::iter::Iterator>::try_fold::<:5
// @bound empty carry-over buffer, record data of exactly 7 symbolic bytes (<= 3 pairs), rec_end symbolic; make_cgivar = E4 model; map insertion = no-op (E4c); E8
// @functions ParamsStateInner::parse_stream, NVIter<&mut [u8]>::next
stream_harness!(c01_parse_stream_7, 7, false);
// @harness name=c01_parse_stream_real_3 props=C01 tier=manual timeout=7000 rmbody=ioerr mem=24
// @bound as c01_parse_stream_3 but with the REAL HashMap (values read back from the environment)
// @functions ParamsStateInner::parse_stream, NVIter<&mut [u8]>::next, HashMap::extend
stream_harness!(c01_parse_stream_real_3, 3, true);

// ------------------------------------------------------------------------------------------------ parse_stream with a carried-over (incomplete) pair

fn carry_case<const BL: usize, const DN: usize>(only_incomplete: bool) {
    let pre: [u8; BL] = kani::any();
    let mut data: [u8; DN] = kani::any();
    let rec_end: bool = kani::any();
    // invariant of `buffer`: a non-empty, strictly incomplete prefix of a pair
    kani::assume(ref_next(&pre, 0).is_none());
    let mut whole = [0u8; 16];
    let mut i = 0; while i < BL { whole[i] = pre[i]; i += 1; }
    let mut i = 0; while i < DN { whole[BL + i] = data[i]; i += 1; }
    let wl = BL + DN;
    // quick instance: only inputs in which the carried-over pair stays incomplete (bytes may move, nothing is delivered)
    if only_incomplete { kani::assume(ref_next(&whole[..wl], 0).is_none()); }
    let mut inner = ParamsStateInner { req: fresh_req(), buffer: Vec::with_capacity(64) };
    inner.req.params = std::collections::HashMap::with_capacity(40);
    inner.buffer.extend_from_slice(&pre);
    let consumed = inner.parse_stream(&mut data[..], rec_end);
    assert!(consumed <= DN, "more bytes reported consumed than were offered");
    // reference: whole pairs decoded from carry ++ data
    let mut o = 0usize;
    let mut k = 0usize;
    while let Some((h, nl, vl)) = ref_next(&whole[..wl], o) {
        assert!(k < g_cnt() && g_name_is(k, &whole[o + h..o + h + nl]), "names must reach make_cgivar in wire order, byte for byte (first one reassembled from the carry-over buffer)");
        o += h + nl + vl;
        k += 1;
    }
    assert!(g_cnt() == k, "number of pairs delivered differs from the number of complete pairs in carry-over + record data");
    if k == 0 {
        // the carried-over pair is still incomplete: bytes may only MOVE from the input to the buffer
        let bl2 = inner.buffer.len();
        assert!(bl2 == BL + consumed, "C01: bytes lost or duplicated between the carry-over buffer and the input (a byte moved into the buffer must be reported as consumed)");
        let j: usize = kani::any();
        if j < bl2 { assert!(inner.buffer[j] == whole[j], "carry-over buffer is not the prefix of the pair's bytes"); }
        if rec_end { assert!(consumed == DN, "at the end of a record every byte must be consumed"); }
        kani::cover!(!rec_end && consumed > 0 && consumed < DN, "length-prefix bytes moved into the carry-over buffer, body still incomplete");
        kani::cover!(!rec_end && consumed == 0, "nothing can be moved yet");
    } else if rec_end {
        assert!(consumed == DN, "at the end of a record every byte must be consumed");
        assert!(inner.buffer.len() == wl - o, "the incomplete tail must be buffered completely");
        let j: usize = kani::any();
        if j < wl - o { assert!(inner.buffer[j] == whole[o + j], "buffered tail differs from the wire bytes"); }
        kani::cover!(k >= 2, "carried-over pair completed and a second pair parsed from the same record");
    } else {
        assert!(BL + consumed == o && inner.buffer.is_empty(), "inside a record exactly the whole pairs are consumed and nothing stays buffered");
        kani::cover!(o < wl, "incomplete tail left in the input buffer");
    }
    std::mem::forget(inner);
}

macro_rules! carry_harness {
    ($name:ident, $bl:expr, $dn:expr, $inc:expr) => {
        #[kani::proof]
        #[kani::unwind(18)]
        #[kani::stub(std::hash::RandomState::new, fixed_random_state)]
        #[kani::stub(ParamsStateInner::make_cgivar, make_cgivar_model)]
        #[kani::stub(std::collections::HashMap::insert, map_insert_model)]
        #[kani::stub(smallvec::SmallVec::with_capacity, crate::verif_kani::smallvec_with_capacity_model)]
        fn $name() { carry_case::<$bl, $dn>($inc); }
    };
}

// @harness name=c01_parse_stream_carry_1 props=C01,C06 tier=thorough timeout=3000 rmbody=ioerr,nogrow,nomap mem=20 dead=1 unwindset=NVIter<&mut..u8.>.as.std::iter::Iterator>::try_fold::<:4
// @bound parse_stream with a carried-over buffer of 1 symbolic byte (incomplete pair prefix) and record data of exactly 5 symbolic bytes, rec_end symbolic: the reassembled pair, the pairs after it, the tail, and the consumed count against a reference decoding of carry ++ data; make_cgivar = E4 model; E4c; E8
// @functions ParamsStateInner::parse_stream (carry-over branch), ParamsStateInner::parse_buffered, NVIter<&mut [u8]>::next
carry_harness!(c01_parse_stream_carry_1, 1, 5, false);
// @harness name=c01_parse_stream_carry_2 props=C01,C06 tier=thorough timeout=3000 rmbody=ioerr,nogrow,nomap mem=20 unwindset=NVIter<&mut..u8.>.as.std::iter::Iterator>::try_fold::<:4
// @bound as c01_parse_stream_carry_1 with 2 carried-over bytes and 4 bytes of record data
// @functions ParamsStateInner::parse_stream (carry-over branch), ParamsStateInner::parse_buffered
carry_harness!(c01_parse_stream_carry_2, 2, 4, false);
// @harness name=c01_parse_stream_carry_s props=C01,C06 tier=quick timeout=1500 rmbody=ioerr,nogrow,nomap mem=20 dead=1 unwindset=NVIter<&mut..u8.>.as.std::iter::Iterator>::try_fold::<:3
// @bound as c01_parse_stream_carry_1 with 1 carried-over byte and 2 bytes of record data (quick instance: a length-prefix byte moves into the carry-over buffer while the body is still missing; or the pair completes)
// @functions ParamsStateInner::parse_stream (carry-over branch), ParamsStateInner::parse_buffered
carry_harness!(c01_parse_stream_carry_s, 1, 2, false);

// ------------------------------------------------------------------------------------------------ ParamsState::drive framing

static mut PS_CALLS: usize = 0;
static mut PS_LEN: [usize; 2] = [0; 2];
static mut PS_END: [bool; 2] = [false; 2];
static mut PS_RET: [usize; 2] = [0; 2];
/// Stand-in for parse_stream in the framing harness: obeys its contract (rec_end => consumes everything,
/// otherwise any prefix) and records how it was called.
fn parse_stream_any(_s: &mut ParamsStateInner, data: &mut [u8], rec_end: bool) -> usize {
    let k: usize = kani::any();
    kani::assume(k <= data.len());
    let r = if rec_end { data.len() } else { k };
    unsafe {
        let i = PS_CALLS;
        assert!(i < 2);
        PS_LEN[i] = data.len(); PS_END[i] = rec_end; PS_RET[i] = r;
        PS_CALLS = i + 1;
    }
    r
}

// @harness name=c01_params_framing props=C01,C03,C04,C11,C06 tier=quick timeout=2400
// @bound ParamsState::drive for every payload_rem / padding_rem, input 0..24 symbolic bytes (every following header), parse_stream replaced by a contract stub (checked separately); own request id symbolic
// @functions request::ParamsState::drive, try_head!, ParamsState::into_skip, StateBuilder for ParamsStateInner / Request
#[kani::proof]
#[kani::unwind(18)]
#[kani::stub(std::hash::RandomState::new, fixed_random_state)]
#[kani::stub(ParamsStateInner::parse_stream, parse_stream_any)]
fn c01_params_framing() {
    let mut buf: [u8; B] = kani::any();
    let d = buf;
    let n: usize = kani::any();
    kani::assume(n <= B);
    let base = buf.as_ptr() as usize;
    let (payload, padding): (u16, u8) = (kani::any(), kani::any());
    let req = fresh_req();
    let my = req.request_id.get();
    // a pair carried over from the previous record may or may not be pending in the side buffer
    let mut carry: Vec<u8> = Vec::with_capacity(8);
    if kani::any() { carry.push(0x05); }
    let carried = !carry.is_empty();
    let ps = ParamsState { inner: ParamsStateInner { req, buffer: carry }, payload_rem: payload, padding_rem: padding };
    let mut out: Vec<u8> = Vec::with_capacity(32);
    out.push(0xD1);
    let r = ps.drive(&mut buf[..n], &mut out);
    let (rem_len, consumed, is_cont, st) = match &r {
        Continue((rem, st)) => (rem.len(), consumed_of(base, n, rem), true, st),
        Break((rem, st)) => (rem.len(), consumed_of(base, n, rem), false, st),
    };
    assert!(consumed + rem_len == n && out[0] == 0xD1);
    let calls = unsafe { PS_CALLS };
    let quiet = out.len() == 1;
    let pl = payload as usize;
    if pl > 0 && n < pl {
        // payload incomplete: feed what we have, not as record end
        assert!(calls == 1 && unsafe { PS_LEN[0] == n && !PS_END[0] }, "partial payload must be parsed with rec_end = false");
        let c = unsafe { PS_RET[0] };
        assert!(!is_cont && consumed == c && quiet, "only what parse_stream consumed may be dropped from the input");
        assert!(matches!(st, State::Params(p) if p.payload_rem == payload - c as u16 && p.padding_rem == padding), "payload accounting wrong");
        kani::cover!(c < n, "unconsumed partial pair stays in the input buffer");
        kani::cover!(carried, "partial payload while a pair from the previous record is still pending");
    } else {
        if pl > 0 { assert!(calls == 1 && unsafe { PS_LEN[0] == pl && PS_END[0] }, "complete payload must be parsed as exactly the record's bytes with rec_end = true"); }
        else { assert!(calls == 0, "no payload, no parse_stream call"); }
        let after = n - pl;
        if padding > 0 && after <= padding as usize {
            assert!(!is_cont && rem_len == 0 && quiet, "padding wait must consume everything");
            assert!(matches!(st, State::Params(p) if p.payload_rem == 0 && p.padding_rem == padding - after as u8), "padding accounting wrong");
            kani::cover!(after == padding as usize, "input ends exactly at the end of the padding");
        } else {
            let hs = pl + padding as usize;     // header start
            if n - hs < 8 {
                assert!(!is_cont && consumed == hs && quiet, "incomplete header must stay in the input buffer");
                assert!(matches!(st, State::Params(p) if p.payload_rem == 0 && p.padding_rem == 0));
                kani::cover!(n - hs == 7 && pl > 0, "record fully parsed, next header one byte short");
            } else {
                let (ver, ty) = (d[hs], d[hs + 1]);
                let id = ((d[hs + 2] as u16) << 8) | d[hs + 3] as u16;
                let len = ((d[hs + 4] as u16) << 8) | d[hs + 5] as u16;
                let pad = d[hs + 6];
                let pskip = |st: &State| if len == 0 && pad == 0 { matches!(st, State::Params(p) if p.payload_rem == 0 && p.padding_rem == 0) }
                    else { matches!(st, State::ParamsSkip(k) if k.payload_rem == len && k.padding_rem == pad) };
                if ver != 1 {
                    assert!(!is_cont && consumed == hs && quiet && matches!(st, State::Fatal(Error::UnknownVersion(v)) if *v == ver), "unknown version must be fatal");
                } else if ty == 0 || ty > 11 {
                    assert!(is_cont && consumed == hs + 8 && pskip(st), "unknown type must be skipped, request kept");
                    assert!(out.len() == 17 && is_rec16(&out, 1, 11, id, ty, 0), "exactly one Unknown(type) reply");
                    kani::cover!(id == my, "unknown type with the request's id");
                } else if ty == 4 && id == my {
                    assert!(is_cont && consumed == hs + 8 && quiet);
                    if len == 0 {
                        assert!(if pad == 0 { matches!(st, State::Done(r) if r.request_id.get() == my) }
                                else { matches!(st, State::DoneSkip(k) if k.payload_rem == 0 && k.padding_rem == pad && k.next.request_id.get() == my) },
                                "empty Params record must finish the preamble (after its padding)");
                        kani::cover!(pad > 0, "terminating Params record with padding");
                    } else {
                        assert!(matches!(st, State::Params(p) if p.payload_rem == len && p.padding_rem == pad && p.inner.req.request_id.get() == my),
                                "next Params record must be framed with its own lengths");
                        kani::cover!(len == 65535 && pad == 255, "maximal Params record");
                    }
                } else if ty == 2 && id == my {
                    assert!(is_cont && consumed == hs + 8);
                    assert!(out.len() == 17 && is_rec16(&out, 1, 3, my, 0, 0), "abort during Params: exactly one EndRequest(RequestComplete, 0) for the request");
                    assert!(if len == 0 && pad == 0 { matches!(st, State::Header(_)) } else { matches!(st, State::HeaderSkip(k) if k.payload_rem == len && k.padding_rem == pad) },
                            "after an abort the parser must return to its initial state (skipping the abort record's body)");
                    kani::cover!(len > 0, "abort record with a body");
                } else if ty == 1 && id != my {
                    assert!(is_cont && consumed == hs + 8 && pskip(st), "foreign BeginRequest must be skipped, request kept");
                    assert!(out.len() == 17 && is_rec16(&out, 1, 3, id, 0, 1), "exactly one EndRequest(CantMpxConn) for the FOREIGN id");
                    kani::cover!(id == 0, "foreign id 0");
                } else if ty == 9 && id == 0 {
                    assert!(is_cont && consumed == hs + 8 && quiet);
                    assert!(matches!(st, State::ParamsValues(g) if g.payload_rem == len && g.padding_rem == pad && g.vars.bits() == 0 && g.next.req.request_id.get() == my),
                            "GetValues during Params must be parsed with the request kept");
                } else {
                    assert!(is_cont && consumed == hs + 8 && quiet && pskip(st), "other records must be skipped silently");
                    kani::cover!(ty == 4 && id != my, "Params for a foreign id");
                    kani::cover!(ty == 2 && id != my, "abort for a foreign id is ignored");
                    kani::cover!(ty == 1 && id == my, "duplicate BeginRequest for the same id is ignored");
                    kani::cover!(ty == 5, "Stdin before the end of Params is ignored");
                }
            }
        }
    }
    std::mem::forget(r);
    std::mem::forget(out);
}

// @harness name=c01_wrapped_resume props=C01,C03,C05 tier=quick timeout=600
// @bound SkipState<ParamsStateInner> and SkipState<Request> finishing on inputs 0..24 bytes: the wrapped request survives unchanged and the right state resumes
// @functions SkipState<ParamsStateInner>::drive, SkipState<Request>::drive, StateBuilder::into_state
#[kani::proof]
#[kani::unwind(4)]
#[kani::stub(std::hash::RandomState::new, fixed_random_state)]
fn c01_wrapped_resume() {
    let mut buf: [u8; B] = kani::any();
    let n: usize = kani::any();
    kani::assume(n <= B);
    let (payload, padding): (u16, u8) = (kani::any(), kani::any());
    kani::assume(payload != 0 || padding != 0);
    let (fin, p2, d2, c) = skip_spec(payload, padding, n);
    let req = fresh_req();
    let my = req.request_id.get();
    if kani::any() {
        let s = SkipState { next: ParamsStateInner { req, buffer: Vec::new() }, payload_rem: payload, padding_rem: padding };
        let r = s.drive(&mut buf[..n]);
        match &r {
            Continue((rem, st)) => { assert!(fin && rem.len() == n - c); assert!(matches!(st, State::Params(p) if p.payload_rem == 0 && p.padding_rem == 0 && p.inner.req.request_id.get() == my), "Params state must resume with the same request"); }
            Break((rem, st)) => { assert!(!fin && rem.is_empty()); assert!(matches!(st, State::ParamsSkip(k) if k.payload_rem == p2 && k.padding_rem == d2 && k.next.req.request_id.get() == my)); }
        }
        kani::cover!(fin, "skip inside Params finished");
        std::mem::forget(r);
    } else {
        let s = SkipState { next: req, payload_rem: payload, padding_rem: padding };
        let r = s.drive(&mut buf[..n]);
        match &r {
            Continue((rem, st)) => { assert!(fin && rem.len() == n - c); assert!(matches!(st, State::Done(q) if q.request_id.get() == my), "finished request must be handed out after the final padding"); }
            Break((rem, st)) => { assert!(!fin && rem.is_empty()); assert!(matches!(st, State::DoneSkip(k) if k.payload_rem == p2 && k.padding_rem == d2)); }
        }
        kani::cover!(fin && n > c, "look-ahead bytes remain after the preamble");
        std::mem::forget(r);
    }
}

// ------------------------------------------------------------------------------------------------ conversions (C05)

// @harness name=c05_request_conversions props=C05,C03,C01 tier=quick timeout=900 rmbody=nodropreq
// @bound 24-byte buffer, every input_len; states Done / Fatal / non-final: into_request and into_stream_parser hand over exactly input[..input_len] (resp. refuse with the right error); stream parser starts at the role's first stream with geometry (0,0,0,input_len)
// @functions request::Parser::into_request, request::Parser::into_stream_parser, stream::Parser::from_parser
#[kani::proof]
#[kani::unwind(4)]
#[kani::stub(std::hash::RandomState::new, fixed_random_state)]
fn c05_request_conversions() {
    let cfg = cfg1();
    let buf: [u8; B] = kani::any();
    let il: usize = kani::any();
    kani::assume(il <= B);
    let role = { let r: u16 = kani::any(); kani::assume(1 <= r && r <= 3); fcgi::Role::try_from(r).unwrap() };
    let mut req = fresh_req();
    req.role = role;
    let my = req.request_id.get();
    let kind: u8 = kani::any();
    kani::assume(kind < 3);
    let st = match kind { 0 => State::Done(req), 1 => State::Fatal(Error::NullRequest), _ => State::HeaderSkip(SkipState { next: HeaderState, payload_rem: 1, padding_rem: 0 }) };
    let mut p = mk_parser(&cfg, buf, il, st);
    p.output.push(0xAA);     // stale reply bytes of the last parse() call must not leak into the stream parser
    let i: usize = kani::any();
    if kani::any() {
        match p.into_request() {
            Ok((r, rest)) => {
                assert!(kind == 0 && r.request_id.get() == my);
                assert!(rest.len() == il, "leftover has the wrong length");
                if i < il { assert!(rest[i] == buf[i], "leftover is not the unread suffix in order"); }
                kani::cover!(il == B, "full buffer of look-ahead");
                std::mem::forget(r); std::mem::forget(rest);
            }
            Err(e) => { assert!(if kind == 1 { matches!(e, Error::NullRequest) } else { kind == 2 && matches!(e, Error::Interrupted) }, "wrong error from into_request"); }
        }
    } else {
        match p.into_stream_parser() {
            Ok(sp) => {
                assert!(kind == 0 && sp.request.request_id.get() == my);
                use crate::parser::stream::verif_kani as sv;
                let (rs, rl) = sv::x_raw(&sp);
                assert!(sp.stream_buffer().is_empty() && rl == il && sv::x_geo(&sp).4 == B, "stream parser must start with all look-ahead as raw bytes and no stream data");
                if i < il { assert!(sv::x_byte(&sp, rs + i) == buf[i], "look-ahead bytes changed by the hand-over"); }
                assert!(sv::x_out(&sp) == (0, 0), "stale output leaked into the stream parser");
                assert!(sv::x_rec(&sp) == (0, 0) && sv::x_state(&sp) == 1);
                let first = match role { fcgi::Role::Authorizer => None, _ => Some(fcgi::RecordType::Stdin) };
                assert!(sp.active_stream() == first, "active stream must start at the first stream of the role");
                kani::cover!(role == fcgi::Role::Authorizer, "role without input streams");
                std::mem::forget(sp);
            }
            Err(e) => { assert!(if kind == 1 { matches!(e, Error::NullRequest) } else { kind == 2 && matches!(e, Error::Interrupted) }); }
        }
    }
}

// ------------------------------------------------------------------------------------------------ contract stub of request::Parser::parse for the async glue harnesses
pub(crate) static mut GR_PARSE_CALLS: usize = 0;
pub(crate) static mut GR_FED: usize = 0;
pub(crate) static mut GR_OUT_TOTAL: usize = 0;

/// Any behaviour `request::Parser::parse` may show to its caller: consumes any part of the buffered bytes, emits
/// 0 or 2 reply bytes, finishes or not (never "not finished with a full buffer": that is reported as StuckOnInput).
pub(crate) fn rparse_contract<'p, 'a>(p: &'p mut Parser<'a>, new_input: usize) -> Yield<'p> where 'a: 'a {
    assert!(new_input <= p.input.len() - p.input_len, "parse() told about more input than the input buffer holds");
    unsafe { GR_PARSE_CALLS += 1; GR_FED += new_input; }
    p.input_len += new_input;
    p.output.clear();
    let rem: usize = kani::any();
    kani::assume(rem <= p.input_len);
    p.input_len = rem;
    if kani::any() { p.output.push(0xAB); p.output.push(0xCD); unsafe { GR_OUT_TOTAL += 2; } }
    let mut done: bool = kani::any();
    if done {
        p.state = if kani::any() { State::Done(fresh_req()) } else { State::Fatal(Error::NullRequest) };
    } else if p.input_len == p.input.len() {
        p.state = State::Fatal(Error::StuckOnInput);
        done = true;
    }
    Yield { done, output: &p.output }
}

// ------------------------------------------------------------------------------------------------ make_cgivar (real), concrete spot checks

// @harness name=c01_make_cgivar_concrete props=C01,C19 tier=quick timeout=900
// @bound concrete names (lossy UTF-8 + phf interning on symbolic bytes runs out of memory, see c19_constructors): lower-case custom name, lower-case interned name, invalid UTF-8, empty name
// @functions ParamsStateInner::make_cgivar, CompactString::from_utf8_lossy, OwnedVarName::from_compact
#[kani::proof]
#[kani::unwind(20)]
#[kani::stub(compact_str::repr::ensure_read, ensure_read_id)]
fn c01_make_cgivar_concrete() {
    let v = ParamsStateInner::make_cgivar(b"x_custom");
    assert!(v.as_ref() == "X_CUSTOM", "names must be ASCII-uppercased");
    let v = ParamsStateInner::make_cgivar(b"Request_Method");
    assert!(v.as_ref() == "REQUEST_METHOD" && v == cgi::OwnedVarName::from(cgi::REQUEST_METHOD), "known names must be matched case-insensitively");
    let v = ParamsStateInner::make_cgivar(b"a\xffb");
    assert!(v.as_ref() == "A\u{fffd}B", "invalid UTF-8 must be replaced lossily, the rest kept");
    let v = ParamsStateInner::make_cgivar(b"");
    assert!(v.as_ref().is_empty(), "empty name");
    kani::cover!(true, "reached");
    std::mem::forget(v);
}
