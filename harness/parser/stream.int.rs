// One-step lemmas for src/parser/stream.rs that call PRIVATE helper functions (parse_payload, parse_head) directly
// and therefore depend on their signatures.  Kept apart from stream.rs so that a refactoring of those helpers costs
// only these lemmas (INCONCLUSIVE: COMPILE) - the runner retries the API-level harnesses without this file.
// @requires parser/stream.rs
use super::*;
use super::verif_kani::*;
use std::num::{NonZeroU16, NonZeroUsize};
use std::collections::HashMap;
use crate::verif_kani::fixed_random_state;

// ------------------------------------------------------------------------------------------------ parse_payload

fn payload_case(state: State, with_dest: bool) {
    let cfg = cfg1();
    let buf: [u8; B] = kani::any();
    let g = any_geo(B);
    let role = any_role();
    let stream = any_active(role);
    let is_stream = matches!(state, State::Stream);
    if is_stream { kani::assume(stream.is_some()); }
    let payload_rem: u16 = kani::any();
    let padding_rem: u8 = kani::any();
    kani::assume(payload_rem > 0);           // parse() calls parse_payload only then
    kani::assume(g.2 < g.3);                  // ... and only inside `while raw_start < free_start`
    if with_dest { kani::assume(g.0 == g.1); }   // documented precondition of dest = Some
    let mut p = mk(&cfg, buf, g, state, role, any_id(), stream, payload_rem, padding_rem, Vec::new(), 0);
    let (plen, rlen) = (g.1 - g.0, g.3 - g.2);
    let mut dbuf = [0xEEu8; B];
    let dlen: usize = kani::any();
    kani::assume(dlen <= B);
    let s0: usize = kani::any();
    kani::assume(s0 <= 1000);
    let mut res = Status { stream: s0, output: 0, stream_end: kani::any() };
    let end0 = res.stream_end;
    let (flow, dest_left) = {
        let mut dest: Option<&mut [u8]> = if with_dest { Some(&mut dbuf[..dlen]) } else { None };
        let f = p.parse_payload(&mut res, &mut dest);
        (f, dest.map_or(0, |d| d.len()))
    };
    let avail = if (payload_rem as usize) < rlen { payload_rem as usize } else { rlen };
    let c = if is_stream && with_dest && dlen < avail { dlen } else { avail };
    assert!(geo_ok(&p), "representation invariant broken");
    assert!(p.raw_start == g.2 + c && p.free_start == g.3, "wrong number of raw bytes consumed");
    assert!(p.payload_rem == payload_rem - c as u16 && p.padding_rem == padding_rem, "record accounting wrong");
    assert!(p.stream == stream && res.stream_end == end0 && res.output == 0 && p.output.is_empty());
    let i: usize = kani::any();
    if is_stream {
        assert!(res.stream == s0 + c, "reported stream byte count wrong");
        if with_dest {
            assert!(p.parsed_start == g.0 && p.gap_start == g.1, "internal stream buffer touched although dest was given");
            assert!(dest_left == dlen - c, "dest slice not advanced by the bytes written");
            if i < c { assert!(dbuf[i] == buf[g.2 + i], "delivered byte differs from the payload byte"); }
            if i >= c && i < B { assert!(dbuf[i] == 0xEE, "bytes beyond the delivered count were written"); }
            kani::cover!(dlen < avail && dlen > 0, "dest smaller than the available payload");
            kani::cover!(dlen == 0, "empty dest");
        } else {
            assert!(p.parsed_start == g.0 && p.gap_start == g.1 + c, "stream buffer not extended by the payload");
            if i < plen { assert!(p.buffer[g.0 + i] == buf[g.0 + i], "previously parsed stream bytes changed"); }
            if i < c { assert!(p.buffer[g.1 + i] == buf[g.2 + i], "appended stream byte differs from the payload byte"); }
            kani::cover!(g.2 > g.1 && g.2 < g.1 + c, "source and destination of the move overlap");
            kani::cover!(g.2 == g.1 && c > 0, "move in place (no gap)");
        }
    } else {
        assert!(res.stream == s0, "bytes delivered outside State::Stream");
        assert!(p.parsed_start == g.0 && p.gap_start == g.1, "stream buffer changed while skipping");
        if i < plen { assert!(p.buffer[g.0 + i] == buf[g.0 + i]); }
    }
    // unread raw bytes are untouched
    if i < rlen - c { assert!(p.buffer[g.2 + c + i] == buf[g.2 + c + i], "unconsumed raw byte changed"); }
    let cont = p.payload_rem == 0 && c < rlen;
    assert!(flow.is_continue() == cont, "loop control: must continue exactly when the payload is complete and raw bytes remain");
    kani::cover!(payload_rem as usize > rlen, "payload continues beyond the buffered bytes");
    kani::cover!(payload_rem == 65535, "maximal record");
    kani::cover!(cont, "payload complete, more raw data");
    std::mem::forget(p);
}

// @harness name=c02_payload_stream_internal props=C02,C03,C18 tier=quick timeout=600 dead=2
// @bound State::Stream, dest=None; 24-byte buffer, every geometry with >=1 raw byte, payload_rem 1..65535, padding_rem 0..255
// @functions stream::Parser::parse_payload
#[kani::proof]
#[kani::unwind(4)]
#[kani::stub(std::hash::RandomState::new, fixed_random_state)]
fn c02_payload_stream_internal() { payload_case(State::Stream, false); }

// @harness name=c02_payload_stream_dest props=C02,C03,C18 tier=quick timeout=600 dead=2
// @bound State::Stream, dest=Some(len 0..24); 24-byte buffer, every geometry with empty stream buffer and >=1 raw byte, payload_rem 1..65535
// @functions stream::Parser::parse_payload
#[kani::proof]
#[kani::unwind(4)]
#[kani::stub(std::hash::RandomState::new, fixed_random_state)]
fn c02_payload_stream_dest() { payload_case(State::Stream, true); }

// @harness name=c02_payload_skip props=C02,C03,C18 tier=quick timeout=600 dead=4
// @bound State::Skip, dest None or Some; 24-byte buffer, every geometry, payload_rem 1..65535
// @functions stream::Parser::parse_payload
#[kani::proof]
#[kani::unwind(4)]
#[kani::stub(std::hash::RandomState::new, fixed_random_state)]
fn c02_payload_skip() { payload_case(State::Skip, kani::any()); }

// ------------------------------------------------------------------------------------------------ parse_head

// @harness name=c02_head props=C02,C03,C04,C11,C18 tier=quick timeout=2400
// @bound record-boundary state (payload_rem = padding_rem = 0), every geometry of the 24-byte buffer, every role / request id / active stream / previous State, every 8-byte header (all 2^64), no pending output
// @functions stream::Parser::parse_head, cmp_input_streams, RecordHeader::from_bytes, UnknownType::to_record, EndRequest::to_record
#[kani::proof]
#[kani::unwind(18)]
#[kani::stub(std::hash::RandomState::new, fixed_random_state)]
fn c02_head() { head_case(0); }

// @harness name=c02_head_pending_out props=C02,C04 tier=quick timeout=2400
// @bound as c02_head, with 2 bytes of unconsumed output pending (replies must be appended after them)
// @functions stream::Parser::parse_head
#[kani::proof]
#[kani::unwind(18)]
#[kani::stub(std::hash::RandomState::new, fixed_random_state)]
fn c02_head_pending_out() { head_case(2); }

fn head_case(npre: usize) {
    let cfg = cfg1();
    let buf: [u8; B] = kani::any();
    let g = any_geo(B);
    let role = any_role();
    let stream = any_active(role);
    let id = any_id();
    let st0 = any_state();
    if matches!(st0, State::Stream) { kani::assume(stream.is_some()); }
    let st0c = st0.clone();
    let mut out = Vec::with_capacity(64);
    if npre >= 1 { out.push(0xD1); }
    if npre >= 2 { out.push(0xD2); }
    let mut p = mk(&cfg, buf, g, st0, role, id, stream, 0, 0, out, 0);
    let rlen = g.3 - g.2;
    let end0: bool = kani::any();
    let mut res = Status { stream: 0, output: 0, stream_end: end0 };
    let r = p.parse_head(&mut res);
    assert!(geo_ok(&p), "representation invariant broken");
    assert!(p.parsed_start == g.0 && p.gap_start == g.1 && p.free_start == g.3 && p.stream == stream && res.stream == 0);
    assert!(p.output.len() >= npre && (npre < 1 || p.output[0] == 0xD1) && (npre < 2 || p.output[1] == 0xD2), "pending output damaged");
    let unchanged = |p: &Parser<'_>, res: &Status| p.raw_start == g.2 && p.payload_rem == 0 && p.padding_rem == 0
        && same_state(&p.state, &st0c) && p.output.len() == npre && res.output == 0;
    if rlen < 8 {
        assert!(matches!(r, Ok(Break(()))) && unchanged(&p, &res) && res.stream_end == end0, "short header must wait for more input without side effects");
        kani::cover!(rlen == 7, "header one byte short");
    } else {
        let h = [buf[g.2], buf[g.2 + 1], buf[g.2 + 2], buf[g.2 + 3], buf[g.2 + 4], buf[g.2 + 5], buf[g.2 + 6], buf[g.2 + 7]];
        let (ver, ty) = (h[0], h[1]);
        let hid = ((h[2] as u16) << 8) | h[3] as u16;
        let len = ((h[4] as u16) << 8) | h[5] as u16;
        let pad = h[6];
        let consumed = |p: &Parser<'_>| p.raw_start == g.2 + 8 && p.payload_rem == len && p.padding_rem == pad;
        if ver != 1 {
            assert!(matches!(r, Err(Error::UnknownVersion(v)) if v == ver), "unknown version must be fatal");
            assert!(unchanged(&p, &res) && res.stream_end == end0, "failing header must stay in the buffer so the error repeats");
            kani::cover!(ty == 0, "bad version and bad type: version wins");
        } else if ty == 0 || ty > 11 {
            assert!(matches!(r, Ok(Continue(()))) && consumed(&p) && matches!(p.state, State::Skip), "unknown type must be skipped");
            assert!(p.output.len() == npre + 16 && res.output == 16, "exactly one 16-byte reply, count reported");
            assert!(is_rec(&p.output, npre, 11, hid, ty, 0), "reply is not Unknown(type) for the record's id");
            assert!(res.stream_end == end0);
            kani::cover!(hid == id, "unknown type with the request's own id");
            kani::cover!(ty == 255 && len == 65535 && pad == 255, "unknown type 255 with maximal lengths");
        } else {
            let rt = fcgi::RecordType::try_from(ty).unwrap();
            if (ty == 5 || ty == 8) && hid == id {
                let ord = ref_cmp(role, rt, stream);
                if ord == Ordering::Equal && len != 0 {
                    assert!(matches!(r, Ok(Continue(()))) && consumed(&p) && matches!(p.state, State::Stream), "record of the active stream must be delivered");
                    assert!(res.stream_end == end0 && p.output.len() == npre && res.output == 0);
                    kani::cover!(ty == 8, "Data record while Data is active");
                } else if ord == Ordering::Less {
                    assert!(matches!(r, Ok(Continue(()))) && consumed(&p) && matches!(p.state, State::Skip), "earlier / foreign stream must be skipped");
                    assert!(res.stream_end == end0 && p.output.len() == npre && res.output == 0);
                    kani::cover!(stream.is_none(), "any stream record while the active stream is None");
                    kani::cover!(role == fcgi::Role::Responder && ty == 8, "Data record for a Responder");
                    kani::cover!(role == fcgi::Role::Filter && ty == 5 && stream == Some(fcgi::RecordType::Data), "stale Stdin while Data is active");
                } else {
                    assert!(matches!(r, Ok(Break(()))) && res.stream_end, "end of stream not reported");
                    assert!(unchanged(&p, &res), "end-of-stream / later-stream header must be held back");
                    kani::cover!(len == 0 && ord == Ordering::Equal, "empty terminating record");
                    kani::cover!(ord == Ordering::Greater && len != 0, "first record of a later stream");
                }
            } else if ty == 2 && hid == id {
                assert!(matches!(r, Err(Error::AbortRequest)), "abort for the request in progress must be reported");
                assert!(unchanged(&p, &res) && res.stream_end == end0, "abort header must stay in the buffer so the error repeats");
                kani::cover!(len != 0 || pad != 0, "abort record with body/padding");
            } else if ty == 1 && hid != id {
                assert!(matches!(r, Ok(Continue(()))) && consumed(&p) && matches!(p.state, State::Skip));
                assert!(p.output.len() == npre + 16 && res.output == 16, "exactly one 16-byte reply, count reported");
                assert!(is_rec(&p.output, npre, 3, hid, 0, 1), "reply is not EndRequest(CantMpxConn, 0) for the FOREIGN id");
                assert!(res.stream_end == end0);
                kani::cover!(hid == 0, "BeginRequest with id 0");
            } else if ty == 9 && hid == 0 {
                assert!(matches!(r, Ok(Continue(()))) && consumed(&p), "GetValues must be parsed");
                assert!(matches!(p.state, State::Values { vars } if vars.bits() == 0), "GetValues must start with an empty variable set");
                assert!(res.stream_end == end0 && p.output.len() == npre && res.output == 0);
                kani::cover!(len == 0, "GetValues with empty body");
            } else {
                assert!(matches!(r, Ok(Continue(()))) && consumed(&p) && matches!(p.state, State::Skip), "other records must be skipped silently");
                assert!(res.stream_end == end0 && p.output.len() == npre && res.output == 0, "no reply for ignorable records");
                kani::cover!(ty == 2 && hid != id, "abort for another id is ignored");
                kani::cover!(ty == 1 && hid == id, "duplicate BeginRequest for the same id is ignored");
                kani::cover!(ty == 4, "stale Params record");
                kani::cover!(ty == 9 && hid != 0, "GetValues with a non-null id");
                kani::cover!((ty == 5 || ty == 8) && hid != id, "stream record for a foreign id");
                kani::cover!(ty == 10 || ty == 11 || ty == 3 || ty == 6 || ty == 7, "server-to-client record types");
            }
        }
    }
    std::mem::forget(r);
    std::mem::forget(p);
}

// ------------------------------------------------------------------------------------------------ parse_payload, State::Values

fn payload_values_case<const N: usize>() {
    let cfg = cfg1();
    let buf: [u8; B] = kani::any();
    // concrete geometry (1 parsed byte, a 1-byte gap, N raw bytes): the index arithmetic for arbitrary geometries is
    // covered by the Stream/Skip instances of the same function; here the subject is the GetValues body handling
    let g = (0usize, 1usize, 2usize, 2 + N);
    let rlen = g.3 - g.2;
    let role = any_role();
    let v0: u8 = kani::any();
    kani::assume(v0 < 8);
    let payload_rem: u16 = kani::any();
    kani::assume(payload_rem > 0);
    let padding_rem: u8 = kani::any();
    let mut out = Vec::with_capacity(16);
    out.push(0xD1);
    let mut p = mk(&cfg, buf, g, State::Values { vars: fcgi::ProtocolVariables::from_bits_truncate(v0) }, role, any_id(),
                   any_active(role), payload_rem, padding_rem, out, 0);
    let mut res = Status { stream: 0, output: 0, stream_end: false };
    let flow = { let mut dest: Option<&mut [u8]> = None; p.parse_payload(&mut res, &mut dest) };
    // reference
    let plen_ = if (payload_rem as usize) < rlen { payload_rem as usize } else { rlen };
    let body = &buf[g.2..g.2 + plen_];
    let mut o = 0usize;
    let mut vars = v0;
    let mut pairs = 0;
    while let Some((h, nl, vl)) = crate::verif_kani::ref_next(body, o) {
        if nl == 1 { match body[o + h] { b'A' => vars |= 1, b'B' => vars |= 2, b'C' => vars |= 4, _ => {} } }
        o += h + nl + vl;
        pairs += 1;
    }
    let complete = rlen >= payload_rem as usize;
    let c = if complete { plen_ } else { o };
    assert!(geo_ok(&p) && p.raw_start == g.2 + c && p.payload_rem == payload_rem - c as u16 && p.padding_rem == padding_rem,
            "GetValues body accounting wrong (only whole pairs may be consumed before the body is complete)");
    assert!(p.parsed_start == g.0 && p.gap_start == g.1 && res.stream == 0, "GetValues data must never reach the stream buffer");
    match &p.state { State::Values { vars: v } => assert!(v.bits() == vars, "recognised variable set wrong"), _ => panic!("state changed") }
    if complete {
        assert!(res.output == 4 && p.output.len() == 5, "exactly one reply when the body is complete, count reported");
        assert!(p.output[0] == 0xD1 && p.output[1] == 0xFA && p.output[2] == vars && p.output[3] == 1 && p.output[4] == 0xFB,
                "reply must be appended after pending output and list exactly the union of recognised names");
        kani::cover!(o < plen_, "body ends with an incomplete pair (ignored)");
        if N >= 9 { kani::cover!(vars == 7 && v0 == 0, "all three names in one body"); }
        kani::cover!(vars != v0, "name recognised");
        kani::cover!(pairs == 0, "body without any complete pair still gets a reply");
    } else {
        assert!(res.output == 0 && p.output.len() == 1, "no reply before the body is complete");
        kani::cover!(o == 0, "nothing consumable yet");
        kani::cover!(o > 0 && o < rlen, "pairs consumed, partial pair kept for the next call");
        kani::cover!(vars != v0, "name recognised in a partial body");
    }
    assert!(flow.is_continue() == (p.payload_rem == 0 && c < rlen));
    std::mem::forget(p);
}

// @harness name=c02_payload_values_3 props=C02,C04,C03 tier=manual timeout=7000 rmbody=ioerr,nogrow mem=40 dead=1
// @bound State::Values with any accumulated set; 24-byte buffer, fixed geometry with exactly 3 raw bytes (symbolic contents), payload_rem 1..65535 (shorter bodies via payload_rem); parse_name / write_response replaced by the E5 models; E8
// @functions stream::Parser::parse_payload, NVIter<&[u8]>::next, parser::parse_nv_var
#[kani::proof]
#[kani::unwind(7)]
#[kani::stub(std::hash::RandomState::new, fixed_random_state)]
#[kani::stub(fcgi::ProtocolVariables::parse_name, crate::verif_kani::parse_name_model)]
#[kani::stub(fcgi::ProtocolVariables::write_response, crate::verif_kani::write_response_model)]
fn c02_payload_values_3() { payload_values_case::<3>(); }

// @harness name=c02_payload_values_2 props=C02,C04,C03 tier=thorough timeout=7000 rmbody=ioerr,nogrow mem=30 dead=4
// @bound State::Values with any accumulated set; 24-byte buffer, fixed geometry with exactly 2 raw bytes (symbolic contents: at most the empty pair), payload_rem 1..65535; parse_name / write_response replaced by the E5 models; E8
// @functions stream::Parser::parse_payload, NVIter<&[u8]>::next, parser::parse_nv_var
#[kani::proof]
#[kani::unwind(7)]
#[kani::stub(std::hash::RandomState::new, fixed_random_state)]
#[kani::stub(fcgi::ProtocolVariables::parse_name, crate::verif_kani::parse_name_model)]
#[kani::stub(fcgi::ProtocolVariables::write_response, crate::verif_kani::write_response_model)]
fn c02_payload_values_2() { payload_values_case::<2>(); }

// @harness name=c02_payload_values_4 props=C02,C04,C03 tier=manual timeout=7000 rmbody=ioerr,nogrow mem=40 dead=1
// @bound State::Values with any accumulated set; 24-byte buffer, fixed geometry with exactly 4 raw bytes (symbolic contents), payload_rem 1..65535 (shorter bodies via payload_rem); parse_name / write_response replaced by the E5 models; E8
// @functions stream::Parser::parse_payload, NVIter<&[u8]>::next, parser::parse_nv_var
#[kani::proof]
#[kani::unwind(7)]
#[kani::stub(std::hash::RandomState::new, fixed_random_state)]
#[kani::stub(fcgi::ProtocolVariables::parse_name, crate::verif_kani::parse_name_model)]
#[kani::stub(fcgi::ProtocolVariables::write_response, crate::verif_kani::write_response_model)]
fn c02_payload_values_4() { payload_values_case::<4>(); }

// @harness name=c02_payload_values_6 props=C02,C04,C03 tier=manual timeout=7000 rmbody=ioerr,nogrow mem=20 dead=1
// @bound State::Values with any accumulated set; 24-byte buffer, fixed geometry with exactly 6 raw bytes (symbolic contents), payload_rem 1..65535 (shorter bodies via payload_rem); parse_name / write_response replaced by the E5 models; E8
// @functions stream::Parser::parse_payload, NVIter<&[u8]>::next, parser::parse_nv_var
#[kani::proof]
#[kani::unwind(7)]
#[kani::stub(std::hash::RandomState::new, fixed_random_state)]
#[kani::stub(fcgi::ProtocolVariables::parse_name, crate::verif_kani::parse_name_model)]
#[kani::stub(fcgi::ProtocolVariables::write_response, crate::verif_kani::write_response_model)]
fn c02_payload_values_6() { payload_values_case::<6>(); }

