// Harnesses for src/parser/stream.rs (C02, C18, parts of C03/C04/C05).
// @requires protocol/nv.rs
// @requires parser/request.rs
// One-step lemmas from an ARBITRARY parser state (all private fields symbolic, constrained only by the
// representation invariant `debug_assert_invars!`), so each covers the call after every history.
use super::*;
use std::num::{NonZeroU16, NonZeroUsize};
use std::collections::HashMap;
use crate::verif_kani::fixed_random_state;

pub(crate) const B: usize = 24;

pub(crate) fn any_role() -> fcgi::Role {
    let r: u16 = kani::any();
    kani::assume(1 <= r && r <= 3);
    fcgi::Role::try_from(r).unwrap()
}

/// Any value the `stream` field can hold for `role`: None or a member of the role's list.
pub(crate) fn any_active(role: fcgi::Role) -> Option<fcgi::RecordType> {
    let k: u8 = kani::any();
    match (role, k) {
        (fcgi::Role::Responder, 1) | (fcgi::Role::Filter, 1) => Some(fcgi::RecordType::Stdin),
        (fcgi::Role::Filter, 2) => Some(fcgi::RecordType::Data),
        _ => None,
    }
}

pub(crate) fn any_geo(b: usize) -> (usize, usize, usize, usize) {
    let (ps, gs, rs, fs): (usize, usize, usize, usize) = (kani::any(), kani::any(), kani::any(), kani::any());
    kani::assume(ps <= gs && gs <= rs && rs <= fs && fs <= b);
    (ps, gs, rs, fs)
}

pub(crate) fn cfg1() -> Config { Config { buffer_size: B, max_conns: NonZeroUsize::new(1).unwrap() } }

#[allow(clippy::too_many_arguments)]
pub(crate) fn mk<'a>(cfg: &'a Config, buf: [u8; B], geo: (usize, usize, usize, usize), state: State,
             role: fcgi::Role, id: u16, stream: Option<fcgi::RecordType>, payload_rem: u16, padding_rem: u8,
             output: Vec<u8>, output_start: usize) -> Parser<'a> {
    let request = Request {
        request_id: NonZeroU16::new(id).unwrap(), role, flags: fcgi::RequestFlags::from(kani::any::<u8>()),
        params: HashMap::new(),
    };
    Parser {
        buffer: Box::new(buf), parsed_start: geo.0, gap_start: geo.1, raw_start: geo.2, free_start: geo.3,
        config: cfg, output, output_start, request, stream, payload_rem, padding_rem, state,
    }
}

/// Accessors for harness modules outside parser::stream (private fields are invisible there).
pub(crate) fn x_geo(p: &Parser<'_>) -> (usize, usize, usize, usize, usize) { (p.parsed_start, p.gap_start, p.raw_start, p.free_start, p.buffer.len()) }
pub(crate) fn x_byte(p: &Parser<'_>, i: usize) -> u8 { p.buffer[i] }
pub(crate) fn x_raw(p: &Parser<'_>) -> (usize, usize) { (p.raw_start, p.free_start - p.raw_start) }
pub(crate) fn x_rec(p: &Parser<'_>) -> (u16, u8) { (p.payload_rem, p.padding_rem) }
pub(crate) fn x_out(p: &Parser<'_>) -> (usize, usize) { (p.output.len(), p.output_start) }
/// 0 = Stream, 1 = Skip, 2 = Values
pub(crate) fn x_state(p: &Parser<'_>) -> u8 { match p.state { State::Stream => 0, State::Skip => 1, State::Values { .. } => 2 } }
pub(crate) fn state_of(code: u8) -> State { match code { 0 => State::Stream, 1 => State::Skip, _ => State::Values { vars: fcgi::ProtocolVariables::empty() } } }
#[allow(clippy::too_many_arguments)]
pub(crate) fn mk_code<'a>(cfg: &'a Config, buf: [u8; B], geo: (usize, usize, usize, usize), state_code: u8,
             role: fcgi::Role, id: u16, stream: Option<fcgi::RecordType>, payload_rem: u16, padding_rem: u8,
             output: Vec<u8>, output_start: usize) -> Parser<'a> {
    mk(cfg, buf, geo, state_of(state_code), role, id, stream, payload_rem, padding_rem, output, output_start)
}

fn any_id() -> u16 { let id: u16 = kani::any(); kani::assume(id != 0); id }

fn geo_ok(p: &Parser<'_>) -> bool {
    p.parsed_start <= p.gap_start && p.gap_start <= p.raw_start && p.raw_start <= p.free_start
        && p.free_start <= p.buffer.len() && p.output_start <= p.output.len()
}

// ------------------------------------------------------------------------------------------------ buffer operations

// @harness name=c02_compress props=C02,C03,C05 tier=quick timeout=400
// @bound 24-byte buffer with symbolic contents, every geometry parsed_start<=gap_start<=raw_start<=free_start<=24
// @functions stream::Parser::compress
#[kani::proof]
#[kani::unwind(2)]
#[kani::stub(std::hash::RandomState::new, fixed_random_state)]
fn c02_compress() {
    let cfg = cfg1();
    let buf: [u8; B] = kani::any();
    let g = any_geo(B);
    let mut p = mk(&cfg, buf, g, State::Skip, any_role(), any_id(), None, kani::any(), kani::any(), Vec::new(), 0);
    p.compress();
    let (plen, rlen) = (g.1 - g.0, g.3 - g.2);
    assert!(geo_ok(&p), "representation invariant broken by compaction");
    assert!(p.gap_start - p.parsed_start == plen && p.free_start - p.raw_start == rlen, "compaction changed the amount of parsed / raw data");
    let i: usize = kani::any();
    if i < plen { assert!(p.buffer[p.parsed_start + i] == buf[g.0 + i], "stream byte changed by compaction"); }
    if i < rlen { assert!(p.buffer[p.raw_start + i] == buf[g.2 + i], "raw byte changed by compaction"); }
    assert!(p.input_buffer().len() >= B - g.3, "compaction reduced the space for new input");
    assert!(p.input_buffer().len() == B - plen - rlen, "compaction did not reclaim all gaps (documented: makes the space available to input_buffer)");
    kani::cover!(g.0 > 0 && plen > 0 && g.2 > g.1 && rlen > 0, "both regions moved");
    kani::cover!(g.0 > 0 && plen > 0 && g.2 > g.1 && rlen > 0 && plen + rlen > g.2, "raw region overlaps its destination");
    kani::cover!(g.0 == 0 && g.1 == g.2, "nothing to move");
    std::mem::forget(p);
}

// @harness name=c02_consume_discard props=C02,C03,C05 tier=quick timeout=400
// @bound 24-byte buffer, every geometry, every amount k (usize); consume_stream(k) then discard_stream()
// @functions stream::Parser::consume_stream, stream::Parser::discard_stream, stream::Parser::stream_buffer
#[kani::proof]
#[kani::unwind(2)]
#[kani::stub(std::hash::RandomState::new, fixed_random_state)]
fn c02_consume_discard() {
    let cfg = cfg1();
    let buf: [u8; B] = kani::any();
    let g = any_geo(B);
    let mut p = mk(&cfg, buf, g, State::Skip, any_role(), any_id(), None, kani::any(), kani::any(), Vec::new(), 0);
    let (plen, rlen) = (g.1 - g.0, g.3 - g.2);
    let k: usize = kani::any();
    p.consume_stream(k);
    let c = if k < plen { k } else { plen };
    assert!(p.parsed_start == g.0 + c && p.gap_start == g.1 && p.raw_start == g.2 && p.free_start == g.3,
            "consume_stream must only advance the start of the stream buffer");
    assert!(p.stream_buffer().len() == plen - c);
    let i: usize = kani::any();
    if i < plen - c { assert!(p.stream_buffer()[i] == buf[g.0 + c + i], "wrong bytes left after consume"); }
    kani::cover!(k > plen && plen > 0, "over-consumption is clamped");
    kani::cover!(k > 0 && k < plen, "partial consumption");
    p.discard_stream();
    assert!(geo_ok(&p) && p.stream_buffer().is_empty() && p.free_start - p.raw_start == rlen, "discard must drop the stream buffer only");
    if i < rlen { assert!(p.buffer[p.raw_start + i] == buf[g.2 + i], "raw byte lost by discard_stream"); }
    std::mem::forget(p);
}

// @harness name=c02_consume_output props=C02,C04 tier=quick timeout=400
// @bound pending output of 5 symbolic bytes, every output_start 0..5, every amount k (usize)
// @functions stream::Parser::consume_output, stream::Parser::output_buffer
#[kani::proof]
#[kani::unwind(7)]
#[kani::stub(std::hash::RandomState::new, fixed_random_state)]
fn c02_consume_output() {
    let cfg = cfg1();
    let buf: [u8; B] = kani::any();
    let g = any_geo(B);
    let o: [u8; 5] = kani::any();
    let mut out = Vec::with_capacity(8);
    out.extend_from_slice(&o);
    let os: usize = kani::any();
    kani::assume(os <= 5);
    let mut p = mk(&cfg, buf, g, State::Skip, any_role(), any_id(), None, kani::any(), kani::any(), out, os);
    let k: usize = kani::any();
    let pending = 5 - os;
    p.consume_output(k);
    let c = if k < pending { k } else { pending };
    assert!(p.output_buffer().len() == pending - c, "wrong amount of output left");
    let i: usize = kani::any();
    if i < pending - c { assert!(p.output_buffer()[i] == o[os + c + i], "output bytes reordered or lost"); }
    assert!(geo_ok(&p));
    assert!(p.parsed_start == g.0 && p.gap_start == g.1 && p.raw_start == g.2 && p.free_start == g.3);
    kani::cover!(k > 0 && k < pending, "partial output consumption");
    kani::cover!(k >= pending && pending > 0, "full consumption resets the buffer");
    std::mem::forget(p);
}

// ------------------------------------------------------------------------------------------------ parse_payload

fn payload_case(state: State, with_dest: bool) {
    let cfg = cfg1();
    let buf: [u8; B] = kani::any();
    let g = any_geo(B);
    let role = any_role();
    let stream = any_active(role);
    let is_stream = matches!(state, State::Stream);
    if is_stream { kani::assume(stream.is_some()); }
    let payload_rem: u16 = kani::any();
    let padding_rem: u8 = kani::any();
    kani::assume(payload_rem > 0);           // parse() calls parse_payload only then
    kani::assume(g.2 < g.3);                  // ... and only inside `while raw_start < free_start`
    if with_dest { kani::assume(g.0 == g.1); }   // documented precondition of dest = Some
    let mut p = mk(&cfg, buf, g, state, role, any_id(), stream, payload_rem, padding_rem, Vec::new(), 0);
    let (plen, rlen) = (g.1 - g.0, g.3 - g.2);
    let mut dbuf = [0xEEu8; B];
    let dlen: usize = kani::any();
    kani::assume(dlen <= B);
    let s0: usize = kani::any();
    kani::assume(s0 <= 1000);
    let mut res = Status { stream: s0, output: 0, stream_end: kani::any() };
    let end0 = res.stream_end;
    let (flow, dest_left) = {
        let mut dest: Option<&mut [u8]> = if with_dest { Some(&mut dbuf[..dlen]) } else { None };
        let f = p.parse_payload(&mut res, &mut dest);
        (f, dest.map_or(0, |d| d.len()))
    };
    let avail = if (payload_rem as usize) < rlen { payload_rem as usize } else { rlen };
    let c = if is_stream && with_dest && dlen < avail { dlen } else { avail };
    assert!(geo_ok(&p), "representation invariant broken");
    assert!(p.raw_start == g.2 + c && p.free_start == g.3, "wrong number of raw bytes consumed");
    assert!(p.payload_rem == payload_rem - c as u16 && p.padding_rem == padding_rem, "record accounting wrong");
    assert!(p.stream == stream && res.stream_end == end0 && res.output == 0 && p.output.is_empty());
    let i: usize = kani::any();
    if is_stream {
        assert!(res.stream == s0 + c, "reported stream byte count wrong");
        if with_dest {
            assert!(p.parsed_start == g.0 && p.gap_start == g.1, "internal stream buffer touched although dest was given");
            assert!(dest_left == dlen - c, "dest slice not advanced by the bytes written");
            if i < c { assert!(dbuf[i] == buf[g.2 + i], "delivered byte differs from the payload byte"); }
            if i >= c && i < B { assert!(dbuf[i] == 0xEE, "bytes beyond the delivered count were written"); }
            kani::cover!(dlen < avail && dlen > 0, "dest smaller than the available payload");
            kani::cover!(dlen == 0, "empty dest");
        } else {
            assert!(p.parsed_start == g.0 && p.gap_start == g.1 + c, "stream buffer not extended by the payload");
            if i < plen { assert!(p.buffer[g.0 + i] == buf[g.0 + i], "previously parsed stream bytes changed"); }
            if i < c { assert!(p.buffer[g.1 + i] == buf[g.2 + i], "appended stream byte differs from the payload byte"); }
            kani::cover!(g.2 > g.1 && g.2 < g.1 + c, "source and destination of the move overlap");
            kani::cover!(g.2 == g.1 && c > 0, "move in place (no gap)");
        }
    } else {
        assert!(res.stream == s0, "bytes delivered outside State::Stream");
        assert!(p.parsed_start == g.0 && p.gap_start == g.1, "stream buffer changed while skipping");
        if i < plen { assert!(p.buffer[g.0 + i] == buf[g.0 + i]); }
    }
    // unread raw bytes are untouched
    if i < rlen - c { assert!(p.buffer[g.2 + c + i] == buf[g.2 + c + i], "unconsumed raw byte changed"); }
    let cont = p.payload_rem == 0 && c < rlen;
    assert!(flow.is_continue() == cont, "loop control: must continue exactly when the payload is complete and raw bytes remain");
    kani::cover!(payload_rem as usize > rlen, "payload continues beyond the buffered bytes");
    kani::cover!(payload_rem == 65535, "maximal record");
    kani::cover!(cont, "payload complete, more raw data");
    std::mem::forget(p);
}

// @harness name=c02_payload_stream_internal props=C02,C03,C18 tier=quick timeout=600 dead=2
// @bound State::Stream, dest=None; 24-byte buffer, every geometry with >=1 raw byte, payload_rem 1..65535, padding_rem 0..255
// @functions stream::Parser::parse_payload
#[kani::proof]
#[kani::unwind(4)]
#[kani::stub(std::hash::RandomState::new, fixed_random_state)]
fn c02_payload_stream_internal() { payload_case(State::Stream, false); }

// @harness name=c02_payload_stream_dest props=C02,C03,C18 tier=quick timeout=600 dead=2
// @bound State::Stream, dest=Some(len 0..24); 24-byte buffer, every geometry with empty stream buffer and >=1 raw byte, payload_rem 1..65535
// @functions stream::Parser::parse_payload
#[kani::proof]
#[kani::unwind(4)]
#[kani::stub(std::hash::RandomState::new, fixed_random_state)]
fn c02_payload_stream_dest() { payload_case(State::Stream, true); }

// @harness name=c02_payload_skip props=C02,C03,C18 tier=quick timeout=600 dead=4
// @bound State::Skip, dest None or Some; 24-byte buffer, every geometry, payload_rem 1..65535
// @functions stream::Parser::parse_payload
#[kani::proof]
#[kani::unwind(4)]
#[kani::stub(std::hash::RandomState::new, fixed_random_state)]
fn c02_payload_skip() { payload_case(State::Skip, kani::any()); }

// ------------------------------------------------------------------------------------------------ parse_head

fn ridx(role: fcgi::Role, s: fcgi::RecordType) -> Option<usize> {
    match (role, s) {
        (fcgi::Role::Responder, fcgi::RecordType::Stdin) | (fcgi::Role::Filter, fcgi::RecordType::Stdin) => Some(0),
        (fcgi::Role::Filter, fcgi::RecordType::Data) => Some(1),
        _ => None,
    }
}

/// Reference order (DESIGN C18): position in the role's list; `exp == None` is after everything;
/// a `recv` outside the role's list is before everything.
pub(crate) fn ref_cmp(role: fcgi::Role, recv: fcgi::RecordType, exp: Option<fcgi::RecordType>) -> Ordering {
    let Some(e) = exp else { return Ordering::Less };
    if recv == e { return Ordering::Equal; }
    match (ridx(role, recv), ridx(role, e)) {
        (None, _) => Ordering::Less,
        (Some(a), Some(b)) => a.cmp(&b),
        (Some(_), None) => Ordering::Less, // unreachable for valid `exp`
    }
}

fn any_state() -> State {
    let k: u8 = kani::any();
    match k { 0 => State::Stream, 1 => State::Skip, _ => {
        let b: u8 = kani::any(); kani::assume(b < 8);
        State::Values { vars: fcgi::ProtocolVariables::from_bits_truncate(b) } } }
}

fn same_state(a: &State, b: &State) -> bool {
    match (a, b) {
        (State::Stream, State::Stream) | (State::Skip, State::Skip) => true,
        (State::Values { vars: x }, State::Values { vars: y }) => x.bits() == y.bits(),
        _ => false,
    }
}

fn is_rec(out: &[u8], at: usize, rtype: u8, id: u16, body0: u8, body4: u8) -> bool {
    out.len() >= at + 16 && out[at] == 1 && out[at + 1] == rtype && out[at + 2] == (id >> 8) as u8 && out[at + 3] == id as u8
        && out[at + 4] == 0 && out[at + 5] == 8 && out[at + 6] == 0 && out[at + 7] == 0
        && out[at + 8] == body0 && out[at + 9] == 0 && out[at + 10] == 0 && out[at + 11] == 0
        && out[at + 12] == body4 && out[at + 13] == 0 && out[at + 14] == 0 && out[at + 15] == 0
}

// @harness name=c02_head props=C02,C03,C04,C11,C18 tier=quick timeout=2400
// @bound record-boundary state (payload_rem = padding_rem = 0), every geometry of the 24-byte buffer, every role / request id / active stream / previous State, every 8-byte header (all 2^64), no pending output
// @functions stream::Parser::parse_head, cmp_input_streams, RecordHeader::from_bytes, UnknownType::to_record, EndRequest::to_record
#[kani::proof]
#[kani::unwind(18)]
#[kani::stub(std::hash::RandomState::new, fixed_random_state)]
fn c02_head() { head_case(0); }

// @harness name=c02_head_pending_out props=C02,C04 tier=quick timeout=2400
// @bound as c02_head, with 2 bytes of unconsumed output pending (replies must be appended after them)
// @functions stream::Parser::parse_head
#[kani::proof]
#[kani::unwind(18)]
#[kani::stub(std::hash::RandomState::new, fixed_random_state)]
fn c02_head_pending_out() { head_case(2); }

fn head_case(npre: usize) {
    let cfg = cfg1();
    let buf: [u8; B] = kani::any();
    let g = any_geo(B);
    let role = any_role();
    let stream = any_active(role);
    let id = any_id();
    let st0 = any_state();
    if matches!(st0, State::Stream) { kani::assume(stream.is_some()); }
    let st0c = st0.clone();
    let mut out = Vec::with_capacity(64);
    if npre >= 1 { out.push(0xD1); }
    if npre >= 2 { out.push(0xD2); }
    let mut p = mk(&cfg, buf, g, st0, role, id, stream, 0, 0, out, 0);
    let rlen = g.3 - g.2;
    let end0: bool = kani::any();
    let mut res = Status { stream: 0, output: 0, stream_end: end0 };
    let r = p.parse_head(&mut res);
    assert!(geo_ok(&p), "representation invariant broken");
    assert!(p.parsed_start == g.0 && p.gap_start == g.1 && p.free_start == g.3 && p.stream == stream && res.stream == 0);
    assert!(p.output.len() >= npre && (npre < 1 || p.output[0] == 0xD1) && (npre < 2 || p.output[1] == 0xD2), "pending output damaged");
    let unchanged = |p: &Parser<'_>, res: &Status| p.raw_start == g.2 && p.payload_rem == 0 && p.padding_rem == 0
        && same_state(&p.state, &st0c) && p.output.len() == npre && res.output == 0;
    if rlen < 8 {
        assert!(matches!(r, Ok(Break(()))) && unchanged(&p, &res) && res.stream_end == end0, "short header must wait for more input without side effects");
        kani::cover!(rlen == 7, "header one byte short");
    } else {
        let h = [buf[g.2], buf[g.2 + 1], buf[g.2 + 2], buf[g.2 + 3], buf[g.2 + 4], buf[g.2 + 5], buf[g.2 + 6], buf[g.2 + 7]];
        let (ver, ty) = (h[0], h[1]);
        let hid = ((h[2] as u16) << 8) | h[3] as u16;
        let len = ((h[4] as u16) << 8) | h[5] as u16;
        let pad = h[6];
        let consumed = |p: &Parser<'_>| p.raw_start == g.2 + 8 && p.payload_rem == len && p.padding_rem == pad;
        if ver != 1 {
            assert!(matches!(r, Err(Error::UnknownVersion(v)) if v == ver), "unknown version must be fatal");
            assert!(unchanged(&p, &res) && res.stream_end == end0, "failing header must stay in the buffer so the error repeats");
            kani::cover!(ty == 0, "bad version and bad type: version wins");
        } else if ty == 0 || ty > 11 {
            assert!(matches!(r, Ok(Continue(()))) && consumed(&p) && matches!(p.state, State::Skip), "unknown type must be skipped");
            assert!(p.output.len() == npre + 16 && res.output == 16, "exactly one 16-byte reply, count reported");
            assert!(is_rec(&p.output, npre, 11, hid, ty, 0), "reply is not Unknown(type) for the record's id");
            assert!(res.stream_end == end0);
            kani::cover!(hid == id, "unknown type with the request's own id");
            kani::cover!(ty == 255 && len == 65535 && pad == 255, "unknown type 255 with maximal lengths");
        } else {
            let rt = fcgi::RecordType::try_from(ty).unwrap();
            if (ty == 5 || ty == 8) && hid == id {
                let ord = ref_cmp(role, rt, stream);
                if ord == Ordering::Equal && len != 0 {
                    assert!(matches!(r, Ok(Continue(()))) && consumed(&p) && matches!(p.state, State::Stream), "record of the active stream must be delivered");
                    assert!(res.stream_end == end0 && p.output.len() == npre && res.output == 0);
                    kani::cover!(ty == 8, "Data record while Data is active");
                } else if ord == Ordering::Less {
                    assert!(matches!(r, Ok(Continue(()))) && consumed(&p) && matches!(p.state, State::Skip), "earlier / foreign stream must be skipped");
                    assert!(res.stream_end == end0 && p.output.len() == npre && res.output == 0);
                    kani::cover!(stream.is_none(), "any stream record while the active stream is None");
                    kani::cover!(role == fcgi::Role::Responder && ty == 8, "Data record for a Responder");
                    kani::cover!(role == fcgi::Role::Filter && ty == 5 && stream == Some(fcgi::RecordType::Data), "stale Stdin while Data is active");
                } else {
                    assert!(matches!(r, Ok(Break(()))) && res.stream_end, "end of stream not reported");
                    assert!(unchanged(&p, &res), "end-of-stream / later-stream header must be held back");
                    kani::cover!(len == 0 && ord == Ordering::Equal, "empty terminating record");
                    kani::cover!(ord == Ordering::Greater && len != 0, "first record of a later stream");
                }
            } else if ty == 2 && hid == id {
                assert!(matches!(r, Err(Error::AbortRequest)), "abort for the request in progress must be reported");
                assert!(unchanged(&p, &res) && res.stream_end == end0, "abort header must stay in the buffer so the error repeats");
                kani::cover!(len != 0 || pad != 0, "abort record with body/padding");
            } else if ty == 1 && hid != id {
                assert!(matches!(r, Ok(Continue(()))) && consumed(&p) && matches!(p.state, State::Skip));
                assert!(p.output.len() == npre + 16 && res.output == 16, "exactly one 16-byte reply, count reported");
                assert!(is_rec(&p.output, npre, 3, hid, 0, 1), "reply is not EndRequest(CantMpxConn, 0) for the FOREIGN id");
                assert!(res.stream_end == end0);
                kani::cover!(hid == 0, "BeginRequest with id 0");
            } else if ty == 9 && hid == 0 {
                assert!(matches!(r, Ok(Continue(()))) && consumed(&p), "GetValues must be parsed");
                assert!(matches!(p.state, State::Values { vars } if vars.bits() == 0), "GetValues must start with an empty variable set");
                assert!(res.stream_end == end0 && p.output.len() == npre && res.output == 0);
                kani::cover!(len == 0, "GetValues with empty body");
            } else {
                assert!(matches!(r, Ok(Continue(()))) && consumed(&p) && matches!(p.state, State::Skip), "other records must be skipped silently");
                assert!(res.stream_end == end0 && p.output.len() == npre && res.output == 0, "no reply for ignorable records");
                kani::cover!(ty == 2 && hid != id, "abort for another id is ignored");
                kani::cover!(ty == 1 && hid == id, "duplicate BeginRequest for the same id is ignored");
                kani::cover!(ty == 4, "stale Params record");
                kani::cover!(ty == 9 && hid != 0, "GetValues with a non-null id");
                kani::cover!((ty == 5 || ty == 8) && hid != id, "stream record for a foreign id");
                kani::cover!(ty == 10 || ty == 11 || ty == 3 || ty == 6 || ty == 7, "server-to-client record types");
            }
        }
    }
    std::mem::forget(r);
    std::mem::forget(p);
}

// ------------------------------------------------------------------------------------------------ set_stream (C18)

// @harness name=c18_cmp_table props=C18,C02 tier=quick timeout=300
// @bound all 3 roles x both input-stream record types x every expected value (None or member of the role): the whole table
// @functions cmp_input_streams
#[kani::proof]
#[kani::unwind(4)]
fn c18_cmp_table() {
    let role = any_role();
    let exp = any_active(role);
    let recv = if kani::any() { fcgi::RecordType::Stdin } else { fcgi::RecordType::Data };
    assert!(cmp_input_streams(role, recv, exp) == ref_cmp(role, recv, exp), "stream order comparison differs from the role's list order");
    kani::cover!(role == fcgi::Role::Filter && recv == fcgi::RecordType::Data && exp == Some(fcgi::RecordType::Stdin), "Data after Stdin = Greater");
    kani::cover!(role == fcgi::Role::Responder && recv == fcgi::RecordType::Data && exp.is_some(), "absent stream = Less");
    kani::cover!(role == fcgi::Role::Authorizer, "role without input streams");
}

// @harness name=c18_set_stream props=C18,C02,C09 tier=quick timeout=2400
// @bound every geometry of the 24-byte buffer, every role / current selection / State / payload_rem / padding_rem; requested selection: None or ANY of the 11 record types; second call with None|Stdin|Data
// @functions stream::Parser::set_stream, stream::Parser::active_stream, discard_stream, compress
#[kani::proof]
#[kani::unwind(4)]
#[kani::stub(std::hash::RandomState::new, fixed_random_state)]
fn c18_set_stream() {
    let cfg = cfg1();
    let buf: [u8; B] = kani::any();
    let g = any_geo(B);
    let role = any_role();
    let cur = any_active(role);
    let st0 = any_state();
    if matches!(st0, State::Stream) { kani::assume(cur.is_some()); }
    let st0c = st0.clone();
    let (pr, dr): (u16, u8) = (kani::any(), kani::any());
    let mut p = mk(&cfg, buf, g, st0, role, any_id(), cur, pr, dr, Vec::new(), 0);
    let (plen, rlen) = (g.1 - g.0, g.3 - g.2);
    // requested selection: None or ANY record type (also those that are no input stream of any role)
    let req: Option<fcgi::RecordType> = { let t: u8 = kani::any(); kani::assume(t <= 11); if t == 0 { None } else { Some(fcgi::RecordType::try_from(t).unwrap()) } };
    let r = p.set_stream(req);
    // reference: allowed iff None, or member of the role at or after the current selection
    let allowed = match req { None => true, Some(s) => ref_cmp(role, s, cur) != Ordering::Less };
    assert!(r.is_ok() == allowed, "set_stream accepts/rejects differently from the role's order");
    assert!(p.payload_rem == pr && p.padding_rem == dr, "record accounting must not change");
    let i: usize = kani::any();
    if !allowed || req == cur {
        assert!(p.active_stream() == cur && same_state(&p.state, &st0c), "rejected or repeated selection must change nothing");
        assert!(p.parsed_start == g.0 && p.gap_start == g.1 && p.raw_start == g.2 && p.free_start == g.3, "buffered data must be kept");
        if i < B { assert!(p.buffer[i] == buf[i]); }
        kani::cover!(!allowed && cur.is_none(), "None is absorbing: any Some(..) after None is rejected");
        kani::cover!(!allowed && cur == Some(fcgi::RecordType::Data), "moving backwards Data -> Stdin rejected");
        kani::cover!(!allowed && role == fcgi::Role::Responder && req == Some(fcgi::RecordType::Data), "input stream outside the role rejected");
        kani::cover!(!allowed && cur.is_some() && req == Some(fcgi::RecordType::Stdout), "record type that is no input stream rejected while a stream is active");
        kani::cover!(allowed && req == cur && plen > 0, "re-selecting the current stream keeps buffered data");
    } else {
        assert!(p.active_stream() == req, "accepted selection not stored");
        assert!(geo_ok(&p) && p.stream_buffer().is_empty(), "stream buffer of the old stream must be emptied");
        assert!(p.free_start - p.raw_start == rlen, "raw bytes must be preserved (count)");
        if i < rlen { assert!(p.buffer[p.raw_start + i] == buf[g.2 + i], "raw bytes must be preserved (content)"); }
        if matches!(st0c, State::Stream) { assert!(matches!(p.state, State::Skip), "rest of the old stream's record must be skipped, not delivered"); }
        else { assert!(same_state(&p.state, &st0c)); }
        kani::cover!(matches!(st0c, State::Stream) && pr > 0 && plen > 0, "advance in the middle of a stream record with buffered data");
        kani::cover!(req.is_none(), "select none");
        kani::cover!(cur == Some(fcgi::RecordType::Stdin) && req == Some(fcgi::RecordType::Data), "Stdin -> Data");
    }
    // monotonicity over two calls: the selection never moves backwards
    let cur1 = p.active_stream();
    let req2: Option<fcgi::RecordType> = match kani::any::<u8>() { 0 => None, 1 => Some(fcgi::RecordType::Stdin), _ => Some(fcgi::RecordType::Data) };
    let r2 = p.set_stream(req2);
    let cur2 = p.active_stream();
    let pos = |s: Option<fcgi::RecordType>| match s { None => 9, Some(x) => ridx(role, x).unwrap_or(99) };
    assert!(pos(cur2) != 99 && pos(cur2) >= pos(cur1) && pos(cur1) >= pos(cur), "active stream moved backwards or outside the role");
    if cur1.is_none() { assert!(cur2.is_none(), "None must be permanent"); }
    std::mem::forget(r); std::mem::forget(r2);
    std::mem::forget(p);
}

// ------------------------------------------------------------------------------------------------ parse_payload, State::Values

fn payload_values_case<const N: usize>() {
    let cfg = cfg1();
    let buf: [u8; B] = kani::any();
    // concrete geometry (1 parsed byte, a 1-byte gap, N raw bytes): the index arithmetic for arbitrary geometries is
    // covered by the Stream/Skip instances of the same function; here the subject is the GetValues body handling
    let g = (0usize, 1usize, 2usize, 2 + N);
    let rlen = g.3 - g.2;
    let role = any_role();
    let v0: u8 = kani::any();
    kani::assume(v0 < 8);
    let payload_rem: u16 = kani::any();
    kani::assume(payload_rem > 0);
    let padding_rem: u8 = kani::any();
    let mut out = Vec::with_capacity(16);
    out.push(0xD1);
    let mut p = mk(&cfg, buf, g, State::Values { vars: fcgi::ProtocolVariables::from_bits_truncate(v0) }, role, any_id(),
                   any_active(role), payload_rem, padding_rem, out, 0);
    let mut res = Status { stream: 0, output: 0, stream_end: false };
    let flow = { let mut dest: Option<&mut [u8]> = None; p.parse_payload(&mut res, &mut dest) };
    // reference
    let plen_ = if (payload_rem as usize) < rlen { payload_rem as usize } else { rlen };
    let body = &buf[g.2..g.2 + plen_];
    let mut o = 0usize;
    let mut vars = v0;
    let mut pairs = 0;
    while let Some((h, nl, vl)) = crate::verif_kani::ref_next(body, o) {
        if nl == 1 { match body[o + h] { b'A' => vars |= 1, b'B' => vars |= 2, b'C' => vars |= 4, _ => {} } }
        o += h + nl + vl;
        pairs += 1;
    }
    let complete = rlen >= payload_rem as usize;
    let c = if complete { plen_ } else { o };
    assert!(geo_ok(&p) && p.raw_start == g.2 + c && p.payload_rem == payload_rem - c as u16 && p.padding_rem == padding_rem,
            "GetValues body accounting wrong (only whole pairs may be consumed before the body is complete)");
    assert!(p.parsed_start == g.0 && p.gap_start == g.1 && res.stream == 0, "GetValues data must never reach the stream buffer");
    match &p.state { State::Values { vars: v } => assert!(v.bits() == vars, "recognised variable set wrong"), _ => panic!("state changed") }
    if complete {
        assert!(res.output == 4 && p.output.len() == 5, "exactly one reply when the body is complete, count reported");
        assert!(p.output[0] == 0xD1 && p.output[1] == 0xFA && p.output[2] == vars && p.output[3] == 1 && p.output[4] == 0xFB,
                "reply must be appended after pending output and list exactly the union of recognised names");
        kani::cover!(o < plen_, "body ends with an incomplete pair (ignored)");
        if N >= 9 { kani::cover!(vars == 7 && v0 == 0, "all three names in one body"); }
        kani::cover!(vars != v0, "name recognised");
        kani::cover!(pairs == 0, "body without any complete pair still gets a reply");
    } else {
        assert!(res.output == 0 && p.output.len() == 1, "no reply before the body is complete");
        kani::cover!(o == 0, "nothing consumable yet");
        kani::cover!(o > 0 && o < rlen, "pairs consumed, partial pair kept for the next call");
        kani::cover!(vars != v0, "name recognised in a partial body");
    }
    assert!(flow.is_continue() == (p.payload_rem == 0 && c < rlen));
    std::mem::forget(p);
}

// @harness name=c02_payload_values_3 props=C02,C04,C03 tier=manual timeout=7000 rmbody=ioerr,nogrow mem=40 dead=1
// @bound State::Values with any accumulated set; 24-byte buffer, fixed geometry with exactly 3 raw bytes (symbolic contents), payload_rem 1..65535 (shorter bodies via payload_rem); parse_name / write_response replaced by the E5 models; E8
// @functions stream::Parser::parse_payload, NVIter<&[u8]>::next, parser::parse_nv_var
#[kani::proof]
#[kani::unwind(7)]
#[kani::stub(std::hash::RandomState::new, fixed_random_state)]
#[kani::stub(fcgi::ProtocolVariables::parse_name, crate::verif_kani::parse_name_model)]
#[kani::stub(fcgi::ProtocolVariables::write_response, crate::verif_kani::write_response_model)]
fn c02_payload_values_3() { payload_values_case::<3>(); }

// @harness name=c02_payload_values_2 props=C02,C04,C03 tier=thorough timeout=7000 rmbody=ioerr,nogrow mem=30 dead=4
// @bound State::Values with any accumulated set; 24-byte buffer, fixed geometry with exactly 2 raw bytes (symbolic contents: at most the empty pair), payload_rem 1..65535; parse_name / write_response replaced by the E5 models; E8
// @functions stream::Parser::parse_payload, NVIter<&[u8]>::next, parser::parse_nv_var
#[kani::proof]
#[kani::unwind(7)]
#[kani::stub(std::hash::RandomState::new, fixed_random_state)]
#[kani::stub(fcgi::ProtocolVariables::parse_name, crate::verif_kani::parse_name_model)]
#[kani::stub(fcgi::ProtocolVariables::write_response, crate::verif_kani::write_response_model)]
fn c02_payload_values_2() { payload_values_case::<2>(); }

// @harness name=c02_payload_values_4 props=C02,C04,C03 tier=manual timeout=7000 rmbody=ioerr,nogrow mem=40 dead=1
// @bound State::Values with any accumulated set; 24-byte buffer, fixed geometry with exactly 4 raw bytes (symbolic contents), payload_rem 1..65535 (shorter bodies via payload_rem); parse_name / write_response replaced by the E5 models; E8
// @functions stream::Parser::parse_payload, NVIter<&[u8]>::next, parser::parse_nv_var
#[kani::proof]
#[kani::unwind(7)]
#[kani::stub(std::hash::RandomState::new, fixed_random_state)]
#[kani::stub(fcgi::ProtocolVariables::parse_name, crate::verif_kani::parse_name_model)]
#[kani::stub(fcgi::ProtocolVariables::write_response, crate::verif_kani::write_response_model)]
fn c02_payload_values_4() { payload_values_case::<4>(); }

// @harness name=c02_payload_values_6 props=C02,C04,C03 tier=manual timeout=7000 rmbody=ioerr,nogrow mem=20 dead=1
// @bound State::Values with any accumulated set; 24-byte buffer, fixed geometry with exactly 6 raw bytes (symbolic contents), payload_rem 1..65535 (shorter bodies via payload_rem); parse_name / write_response replaced by the E5 models; E8
// @functions stream::Parser::parse_payload, NVIter<&[u8]>::next, parser::parse_nv_var
#[kani::proof]
#[kani::unwind(7)]
#[kani::stub(std::hash::RandomState::new, fixed_random_state)]
#[kani::stub(fcgi::ProtocolVariables::parse_name, crate::verif_kani::parse_name_model)]
#[kani::stub(fcgi::ProtocolVariables::write_response, crate::verif_kani::write_response_model)]
fn c02_payload_values_6() { payload_values_case::<6>(); }

// ------------------------------------------------------------------------------------------------ parse(): loop glue

// @harness name=c02_parse_glue_skip props=C02,C03,C05 tier=manual timeout=7000 rmbody=ioerr,nogrow mem=24
// @bound whole parse(n, None) in State::Skip with active stream None (every record is skipped): payload_rem / padding_rem symbolic, 0..9 raw bytes + 0..9 new bytes (at most one following header), record types restricted to ignorable known types; checks payload->padding->header sequencing and accounting
// @functions stream::Parser::parse, parse_payload, parse_head, padding step
#[kani::proof]
#[kani::unwind(6)]
#[kani::stub(std::hash::RandomState::new, fixed_random_state)]
#[kani::stub(fcgi::ProtocolVariables::parse_name, crate::verif_kani::parse_name_model)]
#[kani::stub(fcgi::ProtocolVariables::write_response, crate::verif_kani::write_response_model)]
fn c02_parse_glue_skip() {
    let cfg = cfg1();
    let buf: [u8; B] = kani::any();
    let g = any_geo(B);
    let rlen0 = g.3 - g.2;
    let n: usize = kani::any();
    kani::assume(n <= B - g.3);
    let rlen = rlen0 + n;
    kani::assume(rlen <= 9);
    let role = any_role();
    let id = any_id();
    let (payload, padding): (u16, u8) = (kani::any(), kani::any());
    let mut p = mk(&cfg, buf, g, State::Skip, role, id, None, payload, padding, Vec::new(), 0);
    let r = p.parse(n, None);
    let total = payload as usize + padding as usize;
    match &r {
        Ok(st) => {
            assert!(st.stream == 0 && st.stream_end, "active stream None: nothing is delivered and end-of-stream is reported");
            assert!(p.parsed_start == g.0 && p.gap_start == g.1, "stream buffer must stay untouched");
            if rlen <= total && !(rlen == total && false) {
                // the current record is not finished (or finished exactly with no byte left for a header)
                let (fin, p2, d2, c) = { 
                    if rlen >= total { (true, 0u16, 0u8, total) }
                    else if rlen < payload as usize { (false, payload - rlen as u16, padding, rlen) }
                    else { (false, 0, padding - (rlen - payload as usize) as u8, rlen) } };
                assert!(p.raw_start == g.2 + c && p.free_start == g.3 + n, "wrong number of bytes skipped");
                assert!(p.payload_rem == p2 && p.padding_rem == d2, "record accounting wrong after a partial skip");
                kani::cover!(fin, "record ends exactly at the end of the buffered data");
                kani::cover!(!fin && rlen > payload as usize, "stopped inside the padding");
            } else {
                // record finished, at least one byte of the next header present
                let hs = g.2 + total;
                if rlen - total < 8 {
                    assert!(p.raw_start == hs && p.payload_rem == 0 && p.padding_rem == 0, "incomplete header must be kept");
                    kani::cover!(rlen - total == 7, "next header one byte short");
                } else {
                    // exactly one header fits (rlen <= 9, total >= 0): it was dispatched
                    assert!(p.raw_start >= hs + 8 || p.raw_start == hs, "header either consumed or held back");
                }
            }
        }
        Err(_) => {
            // only possible if a complete header was reached and it is fatal / an abort for this request
            assert!(rlen >= total + 8, "error without a complete header");
            let hs = g.2 + total;
            assert!(p.raw_start == hs, "failing header must stay in the buffer");
            assert!(buf[hs] != 1 || (buf[hs + 1] == 2 && buf[hs + 2] == (id >> 8) as u8 && buf[hs + 3] == id as u8), "error for a well-formed, non-abort header");
            kani::cover!(buf[hs] == 1, "abort reported after skipping the previous record");
        }
    }
    assert!(geo_ok(&p));
    std::mem::forget(r);
    std::mem::forget(p);
}

// @harness name=c03_stream_initial props=C03,C02,C09 tier=quick timeout=600 rmbody=ioerr,nogrow,nonv unwindset=stream::Parser::<'_>::parse$:2
// @bound parse(0, dest) on an empty raw region for every role / active stream / geometry: returns immediately, stream_end iff the active stream is None, nothing changes
// @functions stream::Parser::parse, stream::Parser::is_record_boundary
#[kani::proof]
#[kani::unwind(4)]
#[kani::stub(std::hash::RandomState::new, fixed_random_state)]
#[kani::stub(fcgi::ProtocolVariables::parse_name, crate::verif_kani::parse_name_model)]
#[kani::stub(fcgi::ProtocolVariables::write_response, crate::verif_kani::write_response_model)]
fn c03_stream_initial() {
    let cfg = cfg1();
    let buf: [u8; B] = kani::any();
    let g = { let g = any_geo(B); (g.0, g.1, g.2, g.2) };       // no raw bytes (same symbol for both ends)
    let role = any_role();
    let stream = any_active(role);
    let (payload, padding): (u16, u8) = (kani::any(), kani::any());
    let mut p = mk(&cfg, buf, g, State::Skip, role, any_id(), stream, payload, padding, Vec::new(), 0);
    let with_dest: bool = kani::any();
    if with_dest { kani::assume(g.0 == g.1); }
    let mut d = [0u8; 4];
    let r = if with_dest { p.parse(0, Some(&mut d[..])) } else { p.parse(0, None) };
    match &r {
        Ok(st) => {
            assert!(st.stream == 0 && st.output == 0);
            assert!(st.stream_end == stream.is_none(), "end-of-stream without input must be reported exactly when no stream is active");
        }
        Err(_) => panic!("parse(0) on an empty buffer failed"),
    }
    assert!(p.parsed_start == g.0 && p.gap_start == g.1 && p.raw_start == g.2 && p.free_start == g.3 && p.payload_rem == payload && p.padding_rem == padding);
    assert!(p.is_record_boundary() == (payload == 0 && padding == 0));
    kani::cover!(stream.is_none() && role == fcgi::Role::Authorizer, "Authorizer: immediately at end of input");
    kani::cover!(with_dest && stream.is_some(), "direct read without data");
    std::mem::forget(r);
    std::mem::forget(p);
}

// ------------------------------------------------------------------------------------------------ conversions (C05)

// @harness name=c05_stream_into_input props=C05,C03 tier=quick timeout=900 rmbody=nodropreq
// @bound every geometry of the 24-byte buffer, every payload_rem / padding_rem: into_input and into_request_parser refuse (Interrupted) exactly off a record boundary and otherwise hand over exactly the raw bytes in order
// @functions stream::Parser::into_input, stream::Parser::into_request_parser, stream::Parser::discard_stream, request::Parser::from_parser
#[kani::proof]
#[kani::unwind(4)]
#[kani::stub(std::hash::RandomState::new, fixed_random_state)]
fn c05_stream_into_input() {
    let cfg = cfg1();
    let buf: [u8; B] = kani::any();
    let g = any_geo(B);
    let rlen = g.3 - g.2;
    let (payload, padding): (u16, u8) = (kani::any(), kani::any());
    let role = any_role();
    let p = mk(&cfg, buf, g, any_state(), role, any_id(), any_active(role), payload, padding, Vec::new(), 0);
    let boundary = payload == 0 && padding == 0;
    let i: usize = kani::any();
    if kani::any() {
        match p.into_input() {
            Ok(v) => {
                assert!(boundary, "conversion allowed in the middle of a record");
                assert!(v.len() == rlen, "leftover input has the wrong length");
                if i < rlen { assert!(v[i] == buf[g.2 + i], "leftover input is not the unread raw bytes in order"); }
                kani::cover!(rlen > 0 && g.0 < g.1, "unread stream data is dropped, raw look-ahead kept");
                std::mem::forget(v);
            }
            Err(e) => { assert!(!boundary && matches!(e, Error::Interrupted), "conversion refused at a record boundary"); kani::cover!(payload == 0 && padding > 0, "refused inside padding"); }
        }
    } else {
        match p.into_request_parser() {
            Ok(mut rp) => {
                assert!(boundary, "conversion allowed in the middle of a record");
                let (il, cap, st_is_header, out_empty) = crate::parser::request::verif_kani::x_parser(&rp);
                assert!(il == rlen && cap == B, "request parser must take over the buffer and the unread length");
                if i < rlen { assert!(crate::parser::request::verif_kani::x_byte(&rp, i) == buf[g.2 + i], "request parser does not start with the unread raw bytes in order"); }
                assert!(st_is_header && out_empty);
                assert!(rp.input_buffer().len() == B - rlen);
                kani::cover!(rlen == B, "completely full look-ahead");
                kani::cover!(rlen > 0 && rlen < 8, "look-ahead ends in the middle of a header");
                std::mem::forget(rp);
            }
            Err(e) => { assert!(!boundary && matches!(e, Error::Interrupted)); }
        }
    }
}

// ------------------------------------------------------------------------------------------------ parse(): concrete-shaped traces, symbolic cut

/// Stdin record (3 payload bytes, 5 padding) + empty record of unknown type 12 + empty Stdin terminator: 32 bytes.
fn trace(id: u16, pl: [u8; 3]) -> [u8; 32] {
    let (h, l) = ((id >> 8) as u8, id as u8);
    [1, 5, h, l, 0, 3, 5, 0, pl[0], pl[1], pl[2], 0, 0, 0, 0, 0,
     1, 12, h, l, 0, 0, 0, 0,
     1, 5, h, l, 0, 0, 0, 0]
}

// @harness name=c02_parse_trace_cut props=C02,C03,C04,C09 tier=quick timeout=2400 rmbody=ioerr,nogrow,nonv mem=20 unwindset=stream::Parser::<'_>::parse$:5
// @bound 32-byte buffer holding the concrete-shaped trace [Stdin(3 symbolic bytes, padding 5) | unknown type 12 (empty) | Stdin terminator] for a symbolic request id; the bytes arrive in two parse() calls cut at EVERY offset 0..32; dest = None; compared with the everything-at-once outcome
// @functions stream::Parser::parse (loop glue: payload, padding, header, hold-back), parse_payload, parse_head
#[kani::proof]
#[kani::unwind(18)]
#[kani::stub(std::hash::RandomState::new, fixed_random_state)]
#[kani::stub(fcgi::ProtocolVariables::parse_name, crate::verif_kani::parse_name_model)]
#[kani::stub(fcgi::ProtocolVariables::write_response, crate::verif_kani::write_response_model)]
fn c02_parse_trace_cut() {
    let cfg = cfg1();
    let id = any_id();
    let pl: [u8; 3] = kani::any();
    let t = trace(id, pl);
    let cut: usize = kani::any();
    kani::assume(cut <= 32);
    let request = Request { request_id: NonZeroU16::new(id).unwrap(), role: fcgi::Role::Responder, flags: fcgi::RequestFlags::from(0), params: HashMap::new() };
    let mut p = Parser { buffer: Box::new(t), parsed_start: 0, gap_start: 0, raw_start: 0, free_start: 0, config: &cfg,
                         output: Vec::with_capacity(32), output_start: 0, request, stream: Some(fcgi::RecordType::Stdin),
                         payload_rem: 0, padding_rem: 0, state: State::Skip };
    let r1 = p.parse(cut, None);
    let (s1, e1, o1) = match &r1 { Ok(s) => (s.stream, s.stream_end, s.output), Err(_) => panic!("well-formed trace rejected") };
    let r2 = p.parse(32 - cut, None);
    let (s2, e2, o2) = match &r2 { Ok(s) => (s.stream, s.stream_end, s.output), Err(_) => panic!("well-formed trace rejected") };
    assert!(s1 + s2 == 3, "delivered stream byte count depends on the chunking");
    assert!(p.stream_buffer().len() == 3 && p.stream_buffer()[0] == pl[0] && p.stream_buffer()[1] == pl[1] && p.stream_buffer()[2] == pl[2],
            "delivered stream bytes differ from the payload");
    assert!(e2, "end of stream (empty terminating record) not reported once all bytes are in");
    assert!(e1 == (cut == 32), "end of stream reported before the terminating record arrived completely");
    assert!(o1 + o2 == 16 && p.output_buffer().len() == 16, "exactly one reply for the unknown-type record, counts reported");
    assert!(is_rec(p.output_buffer(), 0, 11, id, 12, 0), "reply is not Unknown(12) for the record's id");
    assert!(p.free_start - p.raw_start == 8 && p.is_record_boundary(), "terminating header must be held back at a record boundary");
    kani::cover!(cut == 10, "cut inside the payload");
    kani::cover!(cut == 13, "cut inside the padding");
    kani::cover!(cut == 20, "cut inside the unknown record's header");
    kani::cover!(cut == 0 || cut == 32, "everything at once");
    std::mem::forget(r1); std::mem::forget(r2);
    std::mem::forget(p);
}

// ------------------------------------------------------------------------------------------------ contract stub of parse() for the async glue harnesses
// `Request::poll_input / record_boundary / close` are checked against EVERY behaviour `stream::Parser::parse` may
// show, by replacing parse() with this nondeterministic stub (the real parse() is the subject of the C02 harnesses).
// Ghost state lets the async harnesses relate what the parser delivered to what the caller received.
pub(crate) static mut GS_STREAM: [u8; 8] = [0; 8];     // bytes the "parser" delivers, in order
pub(crate) static mut GS_POS: usize = 0;               // how many of them have been delivered so far
pub(crate) static mut GS_OUT_TOTAL: usize = 0;         // reply bytes produced so far
pub(crate) static mut GS_PARSE_CALLS: usize = 0;
pub(crate) static mut GS_FED: usize = 0;               // transport bytes handed to parse() so far
pub(crate) static mut GS_ERR_BUDGET: usize = 0;        // how many calls may fail
pub(crate) static mut GS_END: bool = false;
pub(crate) static mut GS_ERRS: (usize, usize) = (0, 0);   // (aborts, fatal errors) the stub has returned so far            // once the stream ended it stays ended (sticky end of stream)

pub(crate) fn parse_contract<'a>(p: &mut Parser<'a>, new_input: usize, dest: Option<&mut [u8]>) -> Result<Status, Error> where 'a: 'a {
    // documented preconditions (the real function asserts them)
    assert!(dest.is_none() || p.parsed_start == p.gap_start, "parse(Some(dest)) called with a non-empty stream buffer");
    assert!(new_input <= p.buffer.len() - p.free_start, "parse() told about more input than the input buffer holds");
    unsafe {
        GS_PARSE_CALLS += 1;
        GS_FED += new_input;
        p.free_start += new_input;
        if GS_ERR_BUDGET > 0 && kani::any() {
            GS_ERR_BUDGET -= 1;
            return Err(if kani::any() { GS_ERRS.0 += 1; Error::AbortRequest } else { GS_ERRS.1 += 1; Error::UnknownVersion(9) });
        }
        // consume any amount of raw protocol data
        let rs: usize = kani::any();
        kani::assume(p.raw_start <= rs && rs <= p.free_start);
        p.raw_start = rs;
        // the record in progress may or may not be finished by this call
        if kani::any() { p.payload_rem = 0; p.padding_rem = 0; } else { p.payload_rem = 1; }
        // replies: 0 or 2 bytes
        let mut out = 0;
        if kani::any() { p.output.push(0xAB); p.output.push(0xCD); out = 2; GS_OUT_TOTAL += 2; }
        // stream data
        let mut k: usize = 0;
        let mut end = GS_END || p.stream.is_none();
        if !end {
            let avail = 8 - GS_POS;
            match dest {
                Some(buf) => {
                    k = kani::any();
                    kani::assume(k <= buf.len() && k <= avail && k <= 3);
                    let mut i = 0;
                    while i < k { buf[i] = GS_STREAM[GS_POS + i]; i += 1; }
                }
                None => {
                    k = kani::any();
                    kani::assume(k <= p.raw_start - p.gap_start && k <= avail && k <= 3);
                    let mut i = 0;
                    while i < k { p.buffer[p.gap_start + i] = GS_STREAM[GS_POS + i]; i += 1; }
                    p.gap_start += k;
                }
            }
            GS_POS += k;
            if kani::any() { end = true; GS_END = true; }
        }
        Ok(Status { stream: k, stream_end: end, output: out })
    }
}

/// Contract stub of `compress()` for the async glue harnesses (which only call it with an empty stream buffer):
/// geometry as after the real function, contents of the raw region not moved (the parser contract never reads them).
pub(crate) fn compress_contract<'a>(p: &mut Parser<'a>) where 'a: 'a {
    assert!(p.parsed_start == p.gap_start, "glue harness: compress() called with unread stream data");
    let rlen = p.free_start - p.raw_start;
    p.parsed_start = 0; p.gap_start = 0; p.raw_start = 0; p.free_start = rlen;
}
