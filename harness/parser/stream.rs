// Harnesses for src/parser/stream.rs (C02, C18, parts of C03/C04/C05).
// @requires protocol/nv.rs
// @requires parser/request.rs
// One-step lemmas from an ARBITRARY parser state (all private fields symbolic, constrained only by the
// representation invariant `debug_assert_invars!`), so each covers the call after every history.
use super::*;
use std::num::{NonZeroU16, NonZeroUsize};
use std::collections::HashMap;
use crate::verif_kani::fixed_random_state;

pub(crate) const B: usize = 24;

pub(crate) fn any_role() -> fcgi::Role {
    let r: u16 = kani::any();
    kani::assume(1 <= r && r <= 3);
    fcgi::Role::try_from(r).unwrap()
}

/// Any value the `stream` field can hold for `role`: None or a member of the role's list.
pub(crate) fn any_active(role: fcgi::Role) -> Option<fcgi::RecordType> {
    let k: u8 = kani::any();
    match (role, k) {
        (fcgi::Role::Responder, 1) | (fcgi::Role::Filter, 1) => Some(fcgi::RecordType::Stdin),
        (fcgi::Role::Filter, 2) => Some(fcgi::RecordType::Data),
        _ => None,
    }
}

pub(crate) fn any_geo(b: usize) -> (usize, usize, usize, usize) {
    let (ps, gs, rs, fs): (usize, usize, usize, usize) = (kani::any(), kani::any(), kani::any(), kani::any());
    kani::assume(ps <= gs && gs <= rs && rs <= fs && fs <= b);
    (ps, gs, rs, fs)
}

pub(crate) fn cfg1() -> Config { Config { buffer_size: B, max_conns: NonZeroUsize::new(1).unwrap() } }

#[allow(clippy::too_many_arguments)]
pub(crate) fn mk<'a>(cfg: &'a Config, buf: [u8; B], geo: (usize, usize, usize, usize), state: State,
             role: fcgi::Role, id: u16, stream: Option<fcgi::RecordType>, payload_rem: u16, padding_rem: u8,
             output: Vec<u8>, output_start: usize) -> Parser<'a> {
    let request = Request {
        request_id: NonZeroU16::new(id).unwrap(), role, flags: fcgi::RequestFlags::from(kani::any::<u8>()),
        params: HashMap::new(),
    };
    Parser {
        buffer: Box::new(buf), parsed_start: geo.0, gap_start: geo.1, raw_start: geo.2, free_start: geo.3,
        config: cfg, output, output_start, request, stream, payload_rem, padding_rem, state,
    }
}

/// Accessors for harness modules outside parser::stream (private fields are invisible there).
pub(crate) fn x_geo(p: &Parser<'_>) -> (usize, usize, usize, usize, usize) { (p.parsed_start, p.gap_start, p.raw_start, p.free_start, p.buffer.len()) }
pub(crate) fn x_byte(p: &Parser<'_>, i: usize) -> u8 { p.buffer[i] }
pub(crate) fn x_raw(p: &Parser<'_>) -> (usize, usize) { (p.raw_start, p.free_start - p.raw_start) }
pub(crate) fn x_rec(p: &Parser<'_>) -> (u16, u8) { (p.payload_rem, p.padding_rem) }
pub(crate) fn x_out(p: &Parser<'_>) -> (usize, usize) { (p.output.len(), p.output_start) }
/// 0 = Stream, 1 = Skip, 2 = Values
pub(crate) fn x_state(p: &Parser<'_>) -> u8 { match p.state { State::Stream => 0, State::Skip => 1, State::Values { .. } => 2 } }
pub(crate) fn state_of(code: u8) -> State { match code { 0 => State::Stream, 1 => State::Skip, _ => State::Values { vars: fcgi::ProtocolVariables::empty() } } }
#[allow(clippy::too_many_arguments)]
pub(crate) fn mk_code<'a>(cfg: &'a Config, buf: [u8; B], geo: (usize, usize, usize, usize), state_code: u8,
             role: fcgi::Role, id: u16, stream: Option<fcgi::RecordType>, payload_rem: u16, padding_rem: u8,
             output: Vec<u8>, output_start: usize) -> Parser<'a> {
    mk(cfg, buf, geo, state_of(state_code), role, id, stream, payload_rem, padding_rem, output, output_start)
}

pub(crate) fn any_id() -> u16 { let id: u16 = kani::any(); kani::assume(id != 0); id }

pub(crate) fn geo_ok(p: &Parser<'_>) -> bool {
    p.parsed_start <= p.gap_start && p.gap_start <= p.raw_start && p.raw_start <= p.free_start
        && p.free_start <= p.buffer.len() && p.output_start <= p.output.len()
}

// ------------------------------------------------------------------------------------------------ buffer operations

// @harness name=c02_compress props=C02,C03,C05 tier=quick timeout=400
// @bound 24-byte buffer with symbolic contents, every geometry parsed_start<=gap_start<=raw_start<=free_start<=24
// @functions stream::Parser::compress
#[kani::proof]
#[kani::unwind(2)]
#[kani::stub(std::hash::RandomState::new, fixed_random_state)]
pub(crate) fn c02_compress() {
    let cfg = cfg1();
    let buf: [u8; B] = kani::any();
    let g = any_geo(B);
    let mut p = mk(&cfg, buf, g, State::Skip, any_role(), any_id(), None, kani::any(), kani::any(), Vec::new(), 0);
    p.compress();
    let (plen, rlen) = (g.1 - g.0, g.3 - g.2);
    assert!(geo_ok(&p), "representation invariant broken by compaction");
    assert!(p.gap_start - p.parsed_start == plen && p.free_start - p.raw_start == rlen, "compaction changed the amount of parsed / raw data");
    let i: usize = kani::any();
    if i < plen { assert!(p.buffer[p.parsed_start + i] == buf[g.0 + i], "stream byte changed by compaction"); }
    if i < rlen { assert!(p.buffer[p.raw_start + i] == buf[g.2 + i], "raw byte changed by compaction"); }
    assert!(p.input_buffer().len() >= B - g.3, "compaction reduced the space for new input");
    assert!(p.input_buffer().len() == B - plen - rlen, "compaction did not reclaim all gaps (documented: makes the space available to input_buffer)");
    kani::cover!(g.0 > 0 && plen > 0 && g.2 > g.1 && rlen > 0, "both regions moved");
    kani::cover!(g.0 > 0 && plen > 0 && g.2 > g.1 && rlen > 0 && plen + rlen > g.2, "raw region overlaps its destination");
    kani::cover!(g.0 == 0 && g.1 == g.2, "nothing to move");
    std::mem::forget(p);
}

// @harness name=c02_consume_discard props=C02,C03,C05 tier=quick timeout=400
// @bound 24-byte buffer, every geometry, every amount k (usize); consume_stream(k) then discard_stream()
// @functions stream::Parser::consume_stream, stream::Parser::discard_stream, stream::Parser::stream_buffer
#[kani::proof]
#[kani::unwind(2)]
#[kani::stub(std::hash::RandomState::new, fixed_random_state)]
pub(crate) fn c02_consume_discard() {
    let cfg = cfg1();
    let buf: [u8; B] = kani::any();
    let g = any_geo(B);
    let mut p = mk(&cfg, buf, g, State::Skip, any_role(), any_id(), None, kani::any(), kani::any(), Vec::new(), 0);
    let (plen, rlen) = (g.1 - g.0, g.3 - g.2);
    let k: usize = kani::any();
    p.consume_stream(k);
    let c = if k < plen { k } else { plen };
    assert!(p.parsed_start == g.0 + c && p.gap_start == g.1 && p.raw_start == g.2 && p.free_start == g.3,
            "consume_stream must only advance the start of the stream buffer");
    assert!(p.stream_buffer().len() == plen - c);
    let i: usize = kani::any();
    if i < plen - c { assert!(p.stream_buffer()[i] == buf[g.0 + c + i], "wrong bytes left after consume"); }
    kani::cover!(k > plen && plen > 0, "over-consumption is clamped");
    kani::cover!(k > 0 && k < plen, "partial consumption");
    p.discard_stream();
    assert!(geo_ok(&p) && p.stream_buffer().is_empty() && p.free_start - p.raw_start == rlen, "discard must drop the stream buffer only");
    if i < rlen { assert!(p.buffer[p.raw_start + i] == buf[g.2 + i], "raw byte lost by discard_stream"); }
    std::mem::forget(p);
}

// @harness name=c02_consume_output props=C02,C04 tier=quick timeout=400
// @bound pending output of 5 symbolic bytes, every output_start 0..5, every amount k (usize)
// @functions stream::Parser::consume_output, stream::Parser::output_buffer
#[kani::proof]
#[kani::unwind(7)]
#[kani::stub(std::hash::RandomState::new, fixed_random_state)]
pub(crate) fn c02_consume_output() {
    let cfg = cfg1();
    let buf: [u8; B] = kani::any();
    let g = any_geo(B);
    let o: [u8; 5] = kani::any();
    let mut out = Vec::with_capacity(8);
    out.extend_from_slice(&o);
    let os: usize = kani::any();
    kani::assume(os <= 5);
    let mut p = mk(&cfg, buf, g, State::Skip, any_role(), any_id(), None, kani::any(), kani::any(), out, os);
    let k: usize = kani::any();
    let pending = 5 - os;
    p.consume_output(k);
    let c = if k < pending { k } else { pending };
    assert!(p.output_buffer().len() == pending - c, "wrong amount of output left");
    let i: usize = kani::any();
    if i < pending - c { assert!(p.output_buffer()[i] == o[os + c + i], "output bytes reordered or lost"); }
    assert!(geo_ok(&p));
    assert!(p.parsed_start == g.0 && p.gap_start == g.1 && p.raw_start == g.2 && p.free_start == g.3);
    kani::cover!(k > 0 && k < pending, "partial output consumption");
    kani::cover!(k >= pending && pending > 0, "full consumption resets the buffer");
    std::mem::forget(p);
}

// ------------------------------------------------------------------------------------------------ parse_head

pub(crate) fn ridx(role: fcgi::Role, s: fcgi::RecordType) -> Option<usize> {
    match (role, s) {
        (fcgi::Role::Responder, fcgi::RecordType::Stdin) | (fcgi::Role::Filter, fcgi::RecordType::Stdin) => Some(0),
        (fcgi::Role::Filter, fcgi::RecordType::Data) => Some(1),
        _ => None,
    }
}

/// Reference order (DESIGN C18): position in the role's list; `exp == None` is after everything;
/// a `recv` outside the role's list is before everything.
pub(crate) fn ref_cmp(role: fcgi::Role, recv: fcgi::RecordType, exp: Option<fcgi::RecordType>) -> Ordering {
    let Some(e) = exp else { return Ordering::Less };
    if recv == e { return Ordering::Equal; }
    match (ridx(role, recv), ridx(role, e)) {
        (None, _) => Ordering::Less,
        (Some(a), Some(b)) => a.cmp(&b),
        (Some(_), None) => Ordering::Less, // unreachable for valid `exp`
    }
}

pub(crate) fn any_state() -> State {
    let k: u8 = kani::any();
    match k { 0 => State::Stream, 1 => State::Skip, _ => {
        let b: u8 = kani::any(); kani::assume(b < 8);
        State::Values { vars: fcgi::ProtocolVariables::from_bits_truncate(b) } } }
}

pub(crate) fn same_state(a: &State, b: &State) -> bool {
    match (a, b) {
        (State::Stream, State::Stream) | (State::Skip, State::Skip) => true,
        (State::Values { vars: x }, State::Values { vars: y }) => x.bits() == y.bits(),
        _ => false,
    }
}

pub(crate) fn is_rec(out: &[u8], at: usize, rtype: u8, id: u16, body0: u8, body4: u8) -> bool {
    out.len() >= at + 16 && out[at] == 1 && out[at + 1] == rtype && out[at + 2] == (id >> 8) as u8 && out[at + 3] == id as u8
        && out[at + 4] == 0 && out[at + 5] == 8 && out[at + 6] == 0 && out[at + 7] == 0
        && out[at + 8] == body0 && out[at + 9] == 0 && out[at + 10] == 0 && out[at + 11] == 0
        && out[at + 12] == body4 && out[at + 13] == 0 && out[at + 14] == 0 && out[at + 15] == 0
}

// ------------------------------------------------------------------------------------------------ set_stream (C18)

// @harness name=c18_cmp_table props=C18,C02 tier=quick timeout=300
// @bound all 3 roles x both input-stream record types x every expected value (None or member of the role): the whole table
// @functions cmp_input_streams
#[kani::proof]
#[kani::unwind(4)]
pub(crate) fn c18_cmp_table() {
    let role = any_role();
    let exp = any_active(role);
    let recv = if kani::any() { fcgi::RecordType::Stdin } else { fcgi::RecordType::Data };
    assert!(cmp_input_streams(role, recv, exp) == ref_cmp(role, recv, exp), "stream order comparison differs from the role's list order");
    kani::cover!(role == fcgi::Role::Filter && recv == fcgi::RecordType::Data && exp == Some(fcgi::RecordType::Stdin), "Data after Stdin = Greater");
    kani::cover!(role == fcgi::Role::Responder && recv == fcgi::RecordType::Data && exp.is_some(), "absent stream = Less");
    kani::cover!(role == fcgi::Role::Authorizer, "role without input streams");
}

// @harness name=c18_set_stream props=C18,C02,C09,C04 tier=quick timeout=2400
// @bound every geometry of the 24-byte buffer, every role / current selection / State / payload_rem / padding_rem; requested selection: None or ANY of the 11 record types; second call with None|Stdin|Data
// @functions stream::Parser::set_stream, stream::Parser::active_stream, discard_stream, compress
#[kani::proof]
#[kani::unwind(4)]
#[kani::stub(std::hash::RandomState::new, fixed_random_state)]
pub(crate) fn c18_set_stream() {
    let cfg = cfg1();
    let buf: [u8; B] = kani::any();
    let g = any_geo(B);
    let role = any_role();
    let cur = any_active(role);
    let st0 = any_state();
    if matches!(st0, State::Stream) { kani::assume(cur.is_some()); }
    let st0c = st0.clone();
    let (pr, dr): (u16, u8) = (kani::any(), kani::any());
    let mut p = mk(&cfg, buf, g, st0, role, any_id(), cur, pr, dr, Vec::new(), 0);
    let (plen, rlen) = (g.1 - g.0, g.3 - g.2);
    // requested selection: None or ANY record type (also those that are no input stream of any role)
    let req: Option<fcgi::RecordType> = { let t: u8 = kani::any(); kani::assume(t <= 11); if t == 0 { None } else { Some(fcgi::RecordType::try_from(t).unwrap()) } };
    let r = p.set_stream(req);
    // reference: allowed iff None, or member of the role at or after the current selection
    let allowed = match req { None => true, Some(s) => ref_cmp(role, s, cur) != Ordering::Less };
    assert!(r.is_ok() == allowed, "set_stream accepts/rejects differently from the role's order");
    assert!(p.payload_rem == pr && p.padding_rem == dr, "record accounting must not change");
    let i: usize = kani::any();
    if !allowed || req == cur {
        assert!(p.active_stream() == cur && same_state(&p.state, &st0c), "rejected or repeated selection must change nothing");
        assert!(p.parsed_start == g.0 && p.gap_start == g.1 && p.raw_start == g.2 && p.free_start == g.3, "buffered data must be kept");
        if i < B { assert!(p.buffer[i] == buf[i]); }
        kani::cover!(!allowed && cur.is_none(), "None is absorbing: any Some(..) after None is rejected");
        kani::cover!(!allowed && cur == Some(fcgi::RecordType::Data), "moving backwards Data -> Stdin rejected");
        kani::cover!(!allowed && role == fcgi::Role::Responder && req == Some(fcgi::RecordType::Data), "input stream outside the role rejected");
        kani::cover!(!allowed && cur.is_some() && req == Some(fcgi::RecordType::Stdout), "record type that is no input stream rejected while a stream is active");
        kani::cover!(allowed && req == cur && plen > 0, "re-selecting the current stream keeps buffered data");
    } else {
        assert!(p.active_stream() == req, "accepted selection not stored");
        assert!(geo_ok(&p) && p.stream_buffer().is_empty(), "stream buffer of the old stream must be emptied");
        assert!(p.free_start - p.raw_start == rlen, "raw bytes must be preserved (count)");
        if i < rlen { assert!(p.buffer[p.raw_start + i] == buf[g.2 + i], "raw bytes must be preserved (content)"); }
        if matches!(st0c, State::Stream) { assert!(matches!(p.state, State::Skip), "rest of the old stream's record must be skipped, not delivered"); }
        else { assert!(same_state(&p.state, &st0c)); }
        kani::cover!(matches!(st0c, State::Stream) && pr > 0 && plen > 0, "advance in the middle of a stream record with buffered data");
        kani::cover!(req.is_none(), "select none");
        kani::cover!(cur == Some(fcgi::RecordType::Stdin) && req == Some(fcgi::RecordType::Data), "Stdin -> Data");
    }
    // monotonicity over two calls: the selection never moves backwards
    let cur1 = p.active_stream();
    let req2: Option<fcgi::RecordType> = match kani::any::<u8>() { 0 => None, 1 => Some(fcgi::RecordType::Stdin), _ => Some(fcgi::RecordType::Data) };
    let r2 = p.set_stream(req2);
    let cur2 = p.active_stream();
    let pos = |s: Option<fcgi::RecordType>| match s { None => 9, Some(x) => ridx(role, x).unwrap_or(99) };
    assert!(pos(cur2) != 99 && pos(cur2) >= pos(cur1) && pos(cur1) >= pos(cur), "active stream moved backwards or outside the role");
    if cur1.is_none() { assert!(cur2.is_none(), "None must be permanent"); }
    std::mem::forget(r); std::mem::forget(r2);
    std::mem::forget(p);
}

// ------------------------------------------------------------------------------------------------ parse(): loop glue

// @harness name=c02_parse_glue_skip props=C02,C03,C05 tier=manual timeout=7000 rmbody=ioerr,nogrow mem=24
// @bound whole parse(n, None) in State::Skip with active stream None (every record is skipped): payload_rem / padding_rem symbolic, 0..9 raw bytes + 0..9 new bytes (at most one following header), record types restricted to ignorable known types; checks payload->padding->header sequencing and accounting
// @functions stream::Parser::parse, parse_payload, parse_head, padding step
#[kani::proof]
#[kani::unwind(6)]
#[kani::stub(std::hash::RandomState::new, fixed_random_state)]
#[kani::stub(fcgi::ProtocolVariables::parse_name, crate::verif_kani::parse_name_model)]
#[kani::stub(fcgi::ProtocolVariables::write_response, crate::verif_kani::write_response_model)]
pub(crate) fn c02_parse_glue_skip() {
    let cfg = cfg1();
    let buf: [u8; B] = kani::any();
    let g = any_geo(B);
    let rlen0 = g.3 - g.2;
    let n: usize = kani::any();
    kani::assume(n <= B - g.3);
    let rlen = rlen0 + n;
    kani::assume(rlen <= 9);
    let role = any_role();
    let id = any_id();
    let (payload, padding): (u16, u8) = (kani::any(), kani::any());
    let mut p = mk(&cfg, buf, g, State::Skip, role, id, None, payload, padding, Vec::new(), 0);
    let r = p.parse(n, None);
    let total = payload as usize + padding as usize;
    match &r {
        Ok(st) => {
            assert!(st.stream == 0 && st.stream_end, "active stream None: nothing is delivered and end-of-stream is reported");
            assert!(p.parsed_start == g.0 && p.gap_start == g.1, "stream buffer must stay untouched");
            if rlen <= total && !(rlen == total && false) {
                // the current record is not finished (or finished exactly with no byte left for a header)
                let (fin, p2, d2, c) = { 
                    if rlen >= total { (true, 0u16, 0u8, total) }
                    else if rlen < payload as usize { (false, payload - rlen as u16, padding, rlen) }
                    else { (false, 0, padding - (rlen - payload as usize) as u8, rlen) } };
                assert!(p.raw_start == g.2 + c && p.free_start == g.3 + n, "wrong number of bytes skipped");
                assert!(p.payload_rem == p2 && p.padding_rem == d2, "record accounting wrong after a partial skip");
                kani::cover!(fin, "record ends exactly at the end of the buffered data");
                kani::cover!(!fin && rlen > payload as usize, "stopped inside the padding");
            } else {
                // record finished, at least one byte of the next header present
                let hs = g.2 + total;
                if rlen - total < 8 {
                    assert!(p.raw_start == hs && p.payload_rem == 0 && p.padding_rem == 0, "incomplete header must be kept");
                    kani::cover!(rlen - total == 7, "next header one byte short");
                } else {
                    // exactly one header fits (rlen <= 9, total >= 0): it was dispatched
                    assert!(p.raw_start >= hs + 8 || p.raw_start == hs, "header either consumed or held back");
                }
            }
        }
        Err(_) => {
            // only possible if a complete header was reached and it is fatal / an abort for this request
            assert!(rlen >= total + 8, "error without a complete header");
            let hs = g.2 + total;
            assert!(p.raw_start == hs, "failing header must stay in the buffer");
            assert!(buf[hs] != 1 || (buf[hs + 1] == 2 && buf[hs + 2] == (id >> 8) as u8 && buf[hs + 3] == id as u8), "error for a well-formed, non-abort header");
            kani::cover!(buf[hs] == 1, "abort reported after skipping the previous record");
        }
    }
    assert!(geo_ok(&p));
    std::mem::forget(r);
    std::mem::forget(p);
}

// @harness name=c03_stream_initial props=C03,C02,C09 tier=quick timeout=600 rmbody=ioerr,nogrow,nonv unwindset=stream::Parser::<'_>::parse$:2
// @bound parse(0, dest) on an empty raw region for every role / active stream / geometry: returns immediately, stream_end iff the active stream is None, nothing changes
// @functions stream::Parser::parse, stream::Parser::is_record_boundary
#[kani::proof]
#[kani::unwind(4)]
#[kani::stub(std::hash::RandomState::new, fixed_random_state)]
#[kani::stub(fcgi::ProtocolVariables::parse_name, crate::verif_kani::parse_name_model)]
#[kani::stub(fcgi::ProtocolVariables::write_response, crate::verif_kani::write_response_model)]
pub(crate) fn c03_stream_initial() {
    let cfg = cfg1();
    let buf: [u8; B] = kani::any();
    let g = { let g = any_geo(B); (g.0, g.1, g.2, g.2) };       // no raw bytes (same symbol for both ends)
    let role = any_role();
    let stream = any_active(role);
    let (payload, padding): (u16, u8) = (kani::any(), kani::any());
    let mut p = mk(&cfg, buf, g, State::Skip, role, any_id(), stream, payload, padding, Vec::new(), 0);
    let with_dest: bool = kani::any();
    if with_dest { kani::assume(g.0 == g.1); }
    let mut d = [0u8; 4];
    let r = if with_dest { p.parse(0, Some(&mut d[..])) } else { p.parse(0, None) };
    match &r {
        Ok(st) => {
            assert!(st.stream == 0 && st.output == 0);
            assert!(st.stream_end == stream.is_none(), "end-of-stream without input must be reported exactly when no stream is active");
        }
        Err(_) => panic!("parse(0) on an empty buffer failed"),
    }
    assert!(p.parsed_start == g.0 && p.gap_start == g.1 && p.raw_start == g.2 && p.free_start == g.3 && p.payload_rem == payload && p.padding_rem == padding);
    assert!(p.is_record_boundary() == (payload == 0 && padding == 0));
    kani::cover!(stream.is_none() && role == fcgi::Role::Authorizer, "Authorizer: immediately at end of input");
    kani::cover!(with_dest && stream.is_some(), "direct read without data");
    std::mem::forget(r);
    std::mem::forget(p);
}

// ------------------------------------------------------------------------------------------------ conversions (C05)

// @harness name=c05_stream_into_input props=C05,C03 tier=quick timeout=900 rmbody=nodropreq
// @bound every geometry of the 24-byte buffer, every payload_rem / padding_rem: into_input and into_request_parser refuse (Interrupted) exactly off a record boundary and otherwise hand over exactly the raw bytes in order
// @functions stream::Parser::into_input, stream::Parser::into_request_parser, stream::Parser::discard_stream, request::Parser::from_parser
#[kani::proof]
#[kani::unwind(4)]
#[kani::stub(std::hash::RandomState::new, fixed_random_state)]
pub(crate) fn c05_stream_into_input() {
    let cfg = cfg1();
    let buf: [u8; B] = kani::any();
    let g = any_geo(B);
    let rlen = g.3 - g.2;
    let (payload, padding): (u16, u8) = (kani::any(), kani::any());
    let role = any_role();
    let p = mk(&cfg, buf, g, any_state(), role, any_id(), any_active(role), payload, padding, Vec::new(), 0);
    let boundary = payload == 0 && padding == 0;
    let i: usize = kani::any();
    if kani::any() {
        match p.into_input() {
            Ok(v) => {
                assert!(boundary, "conversion allowed in the middle of a record");
                assert!(v.len() == rlen, "leftover input has the wrong length");
                if i < rlen { assert!(v[i] == buf[g.2 + i], "leftover input is not the unread raw bytes in order"); }
                kani::cover!(rlen > 0 && g.0 < g.1, "unread stream data is dropped, raw look-ahead kept");
                std::mem::forget(v);
            }
            Err(e) => { assert!(!boundary && matches!(e, Error::Interrupted), "conversion refused at a record boundary"); kani::cover!(payload == 0 && padding > 0, "refused inside padding"); }
        }
    } else {
        match p.into_request_parser() {
            Ok(mut rp) => {
                assert!(boundary, "conversion allowed in the middle of a record");
                let (il, cap, st_is_header, out_empty) = crate::parser::request::verif_kani::x_parser(&rp);
                assert!(il == rlen && cap == B, "request parser must take over the buffer and the unread length");
                if i < rlen { assert!(crate::parser::request::verif_kani::x_byte(&rp, i) == buf[g.2 + i], "request parser does not start with the unread raw bytes in order"); }
                assert!(st_is_header && out_empty);
                assert!(rp.input_buffer().len() == B - rlen);
                kani::cover!(rlen == B, "completely full look-ahead");
                kani::cover!(rlen > 0 && rlen < 8, "look-ahead ends in the middle of a header");
                std::mem::forget(rp);
            }
            Err(e) => { assert!(!boundary && matches!(e, Error::Interrupted)); }
        }
    }
}

// ------------------------------------------------------------------------------------------------ parse(): concrete-shaped traces, symbolic cut

/// Stdin record (3 payload bytes, 5 padding) + empty record of unknown type 12 + empty Stdin terminator: 32 bytes.
pub(crate) fn trace(id: u16, pl: [u8; 3]) -> [u8; 32] {
    let (h, l) = ((id >> 8) as u8, id as u8);
    [1, 5, h, l, 0, 3, 5, 0, pl[0], pl[1], pl[2], 0, 0, 0, 0, 0,
     1, 12, h, l, 0, 0, 0, 0,
     1, 5, h, l, 0, 0, 0, 0]
}

// @harness name=c02_parse_trace_cut props=C02,C03,C04,C09 tier=quick timeout=2400 rmbody=ioerr,nogrow,nonv mem=20 unwindset=stream::Parser::<'_>::parse$:5
// @bound 32-byte buffer holding the concrete-shaped trace [Stdin(3 symbolic bytes, padding 5) | unknown type 12 (empty) | Stdin terminator] for a symbolic request id; the bytes arrive in two parse() calls cut at EVERY offset 0..32; dest = None; compared with the everything-at-once outcome
// @functions stream::Parser::parse (loop glue: payload, padding, header, hold-back), parse_payload, parse_head
#[kani::proof]
#[kani::unwind(18)]
#[kani::stub(std::hash::RandomState::new, fixed_random_state)]
#[kani::stub(fcgi::ProtocolVariables::parse_name, crate::verif_kani::parse_name_model)]
#[kani::stub(fcgi::ProtocolVariables::write_response, crate::verif_kani::write_response_model)]
pub(crate) fn c02_parse_trace_cut() {
    let cfg = cfg1();
    let id = any_id();
    let pl: [u8; 3] = kani::any();
    let t = trace(id, pl);
    let cut: usize = kani::any();
    kani::assume(cut <= 32);
    let request = Request { request_id: NonZeroU16::new(id).unwrap(), role: fcgi::Role::Responder, flags: fcgi::RequestFlags::from(0), params: HashMap::new() };
    let mut p = Parser { buffer: Box::new(t), parsed_start: 0, gap_start: 0, raw_start: 0, free_start: 0, config: &cfg,
                         output: Vec::with_capacity(32), output_start: 0, request, stream: Some(fcgi::RecordType::Stdin),
                         payload_rem: 0, padding_rem: 0, state: State::Skip };
    let r1 = p.parse(cut, None);
    let (s1, e1, o1) = match &r1 { Ok(s) => (s.stream, s.stream_end, s.output), Err(_) => panic!("well-formed trace rejected") };
    let r2 = p.parse(32 - cut, None);
    let (s2, e2, o2) = match &r2 { Ok(s) => (s.stream, s.stream_end, s.output), Err(_) => panic!("well-formed trace rejected") };
    assert!(s1 + s2 == 3, "delivered stream byte count depends on the chunking");
    assert!(p.stream_buffer().len() == 3 && p.stream_buffer()[0] == pl[0] && p.stream_buffer()[1] == pl[1] && p.stream_buffer()[2] == pl[2],
            "delivered stream bytes differ from the payload");
    assert!(e2, "end of stream (empty terminating record) not reported once all bytes are in");
    assert!(e1 == (cut == 32), "end of stream reported before the terminating record arrived completely");
    assert!(o1 + o2 == 16 && p.output_buffer().len() == 16, "exactly one reply for the unknown-type record, counts reported");
    assert!(is_rec(p.output_buffer(), 0, 11, id, 12, 0), "reply is not Unknown(12) for the record's id");
    assert!(p.free_start - p.raw_start == 8 && p.is_record_boundary(), "terminating header must be held back at a record boundary");
    kani::cover!(cut == 10, "cut inside the payload");
    kani::cover!(cut == 13, "cut inside the padding");
    kani::cover!(cut == 20, "cut inside the unknown record's header");
    kani::cover!(cut == 0 || cut == 32, "everything at once");
    std::mem::forget(r1); std::mem::forget(r2);
    std::mem::forget(p);
}

// @harness name=c02_parse_two_records_dest props=C02,C09 tier=quick timeout=2400 rmbody=ioerr,nogrow,nonv mem=20 unwindset=stream::Parser::<'_>::parse$:5
// @bound 32-byte buffer holding [Stdin(2 symbolic bytes, padding 6) | Stdin(1 symbolic byte, padding 7)] for a symbolic request id, all of it present; ONE parse() call into a caller buffer of 2..4 bytes (direct delivery, dest = Some), then a second call for what did not fit: the caller receives the stream's bytes in order, each once, never more than its buffer holds
// @functions stream::Parser::parse (direct delivery across several records in one call), parse_payload, parse_head
#[kani::proof]
#[kani::unwind(18)]
#[kani::stub(std::hash::RandomState::new, fixed_random_state)]
#[kani::stub(fcgi::ProtocolVariables::parse_name, crate::verif_kani::parse_name_model)]
#[kani::stub(fcgi::ProtocolVariables::write_response, crate::verif_kani::write_response_model)]
pub(crate) fn c02_parse_two_records_dest() {
    let cfg = cfg1();
    let id = any_id();
    let pl: [u8; 3] = kani::any();
    let (h, l) = ((id >> 8) as u8, id as u8);
    let t: [u8; 32] = [1, 5, h, l, 0, 2, 6, 0, pl[0], pl[1], 0, 0, 0, 0, 0, 0,
                       1, 5, h, l, 0, 1, 7, 0, pl[2], 0, 0, 0, 0, 0, 0, 0];
    let d: usize = kani::any();
    kani::assume(2 <= d && d <= 4);
    let request = Request { request_id: NonZeroU16::new(id).unwrap(), role: fcgi::Role::Responder, flags: fcgi::RequestFlags::from(0), params: HashMap::new() };
    let mut p = Parser { buffer: Box::new(t), parsed_start: 0, gap_start: 0, raw_start: 0, free_start: 0, config: &cfg,
                         output: Vec::with_capacity(32), output_start: 0, request, stream: Some(fcgi::RecordType::Stdin),
                         payload_rem: 0, padding_rem: 0, state: State::Skip };
    let mut dest = [0xEEu8; 4];
    let r1 = p.parse(32, Some(&mut dest[..d]));
    let s1 = match &r1 { Ok(s) => { assert!(!s.stream_end && s.output == 0, "no end of stream / reply in this trace"); s.stream }, Err(_) => panic!("well-formed trace rejected") };
    assert!(s1 <= d, "C02: more stream bytes reported than the caller's buffer holds");
    assert!(s1 == if d < 3 { d } else { 3 }, "C02: direct delivery must fill the caller's buffer with everything that is available");
    let mut i = 0;
    while i < 4 { if i < s1 { assert!(dest[i] == pl[i], "C02: bytes delivered into the caller's buffer are not the stream's bytes in order, each once (several records in one call)"); } else { assert!(dest[i] == 0xEE, "C02: bytes written beyond the reported count"); } i += 1; }
    if s1 < 3 {
        let mut dest2 = [0xEEu8; 4];
        let r2 = p.parse(0, Some(&mut dest2[..]));
        let s2 = match &r2 { Ok(s) => s.stream, Err(_) => panic!("well-formed trace rejected") };
        assert!(s1 + s2 == 3 && dest2[0] == pl[s1], "C02: the rest of the stream must follow in the next call");
        kani::cover!(true, "caller buffer smaller than the data of both records");
        std::mem::forget(r2);
    }
    assert!(p.is_record_boundary() && p.stream_buffer().is_empty(), "all of both records consumed");
    kani::cover!(d == 4, "both records delivered in one call with room to spare");
    std::mem::forget(r1);
    std::mem::forget(p);
}

// ------------------------------------------------------------------------------------------------ contract stub of parse() for the async glue harnesses
// `Request::poll_input / record_boundary / close` are checked against EVERY behaviour `stream::Parser::parse` may
// show, by replacing parse() with this nondeterministic stub (the real parse() is the subject of the C02 harnesses).
// Ghost state lets the async harnesses relate what the parser delivered to what the caller received.
pub(crate) static mut GS_STREAM: [u8; 8] = [0; 8];     // bytes the "parser" delivers, in order
pub(crate) static mut GS_POS: usize = 0;               // how many of them have been delivered so far
pub(crate) static mut GS_OUT_TOTAL: usize = 0;         // reply bytes produced so far
pub(crate) static mut GS_PARSE_CALLS: usize = 0;
pub(crate) static mut GS_FED: usize = 0;               // transport bytes handed to parse() so far
pub(crate) static mut GS_ERR_BUDGET: usize = 0;        // how many calls may fail
pub(crate) static mut GS_END: bool = false;
pub(crate) static mut GS_UNCONSUMED: usize = 0;        // raw protocol bytes still unprocessed after the last parse() call
pub(crate) static mut GS_ERRS: (usize, usize) = (0, 0);   // (aborts, fatal errors) the stub has returned so far            // once the stream ended it stays ended (sticky end of stream)

pub(crate) fn parse_contract<'a>(p: &mut Parser<'a>, new_input: usize, dest: Option<&mut [u8]>) -> Result<Status, Error> where 'a: 'a {
    // documented preconditions (the real function asserts them)
    assert!(dest.is_none() || p.parsed_start == p.gap_start, "parse(Some(dest)) called with a non-empty stream buffer");
    assert!(new_input <= p.buffer.len() - p.free_start, "parse() told about more input than the input buffer holds");
    unsafe {
        GS_PARSE_CALLS += 1;
        GS_FED += new_input;
        p.free_start += new_input;
        GS_UNCONSUMED = p.free_start - p.raw_start;
        if GS_ERR_BUDGET > 0 && kani::any() {
            GS_ERR_BUDGET -= 1;
            return Err(if kani::any() { GS_ERRS.0 += 1; Error::AbortRequest } else { GS_ERRS.1 += 1; Error::UnknownVersion(9) });
        }
        // consume any amount of raw protocol data
        let rs: usize = kani::any();
        kani::assume(p.raw_start <= rs && rs <= p.free_start);
        p.raw_start = rs;
        GS_UNCONSUMED = p.free_start - p.raw_start;
        // the record in progress may or may not be finished by this call
        if kani::any() { p.payload_rem = 0; p.padding_rem = 0; } else { p.payload_rem = 1; }
        // replies: 0 or 2 bytes
        let mut out = 0;
        if kani::any() { p.output.push(0xAB); p.output.push(0xCD); out = 2; GS_OUT_TOTAL += 2; }
        // stream data
        let mut k: usize = 0;
        let mut end = GS_END || p.stream.is_none();
        if !end {
            let avail = 8 - GS_POS;
            match dest {
                Some(buf) => {
                    k = kani::any();
                    kani::assume(k <= buf.len() && k <= avail && k <= 3);
                    let mut i = 0;
                    while i < k { buf[i] = GS_STREAM[GS_POS + i]; i += 1; }
                }
                None => {
                    k = kani::any();
                    kani::assume(k <= p.raw_start - p.gap_start && k <= avail && k <= 3);
                    let mut i = 0;
                    while i < k { p.buffer[p.gap_start + i] = GS_STREAM[GS_POS + i]; i += 1; }
                    p.gap_start += k;
                }
            }
            GS_POS += k;
            if kani::any() { end = true; GS_END = true; }
        }
        Ok(Status { stream: k, stream_end: end, output: out })
    }
}

/// Contract stub of `compress()` for the async glue harnesses (which only call it with an empty stream buffer):
/// geometry as after the real function, contents of the raw region not moved (the parser contract never reads them).
pub(crate) fn compress_contract<'a>(p: &mut Parser<'a>) where 'a: 'a {
    assert!(p.parsed_start == p.gap_start, "glue harness: compress() called with unread stream data");
    let rlen = p.free_start - p.raw_start;
    p.parsed_start = 0; p.gap_start = 0; p.raw_start = 0; p.free_start = rlen;
}
