// Harnesses for src/parser/mod.rs (error taxonomy: C03, C11).
use super::*;

// @harness name=c03_error_kinds props=C03,C11,C12 tier=quick timeout=600 rmbody=ioerr
// @bound every parser::Error variant (symbolic payloads): io::ErrorKind the handler sees
// @functions From<parser::Error> for io::Error
#[kani::proof]
#[kani::unwind(4)]
fn c03_error_kinds() {
    let k: u8 = kani::any();
    kani::assume(k < 8);
    let e = match k {
        0 => Error::Paniced, 1 => Error::StuckOnInput, 2 => Error::Interrupted, 3 => Error::UnknownVersion(kani::any()),
        4 => Error::InvalidRequestLen(kani::any()), 5 => Error::NullRequest, 6 => Error::AbortRequest,
        _ => Error::Protocol(fcgi::Error::UnknownRole(kani::any())),
    };
    let io_err = io::Error::from(e);
    let kind = io_err.kind();
    let want = match k {
        6 => io::ErrorKind::ConnectionAborted,
        3 | 4 | 5 | 7 => io::ErrorKind::InvalidData,
        _ => io::ErrorKind::Other,
    };
    assert!(kind == want, "parser error mapped to the wrong io::ErrorKind (an abort must surface as ConnectionAborted and only an abort)");
    kani::cover!(k == 6, "abort");
    kani::cover!(k == 1, "stuck on input");
    std::mem::forget(io_err);
}
