// Harnesses for src/protocol/fields.rs (C17 field enums, C18 role stream tables).
use super::*;

// @harness name=c17_field_enums props=C17 tier=quick timeout=200
// @bound all u8 for Version/RecordType/ProtocolStatus/RequestFlags, all u16 for Role
// @functions Version::try_from, RecordType::try_from, Role::try_from, ProtocolStatus::try_from, RequestFlags::from, RequestFlags::validate
#[kani::proof]
fn c17_field_enums() {
    let b: u8 = kani::any();
    match Version::try_from(b) {
        Ok(v) => { assert_eq!(b, 1); assert_eq!(u8::from(v), b); }
        Err(ProtocolError::UnknownVersion(x)) => { assert!(b != 1); assert_eq!(x, b); }
        Err(_) => panic!("wrong error variant"),
    }
    match RecordType::try_from(b) {
        Ok(v) => { assert!(1 <= b && b <= 11); assert_eq!(u8::from(v), b);
                   assert_eq!(v.is_management(), b >= 9);
                   assert_eq!(v.is_input_stream(), b == 5 || b == 8);
                   assert_eq!(v.is_output_stream(), b == 6 || b == 7); }
        Err(ProtocolError::UnknownRecordType(x)) => { assert!(b == 0 || b > 11); assert_eq!(x, b); }
        Err(_) => panic!("wrong error variant"),
    }
    match ProtocolStatus::try_from(b) {
        Ok(v) => { assert!(b <= 3); assert_eq!(u8::from(v), b); }
        Err(ProtocolError::UnknownStatus(x)) => { assert!(b > 3); assert_eq!(x, b); }
        Err(_) => panic!("wrong error variant"),
    }
    let w: u16 = kani::any();
    match Role::try_from(w) {
        Ok(v) => { assert!(1 <= w && w <= 3); assert_eq!(u16::from(v), w); }
        Err(ProtocolError::UnknownRole(x)) => { assert!(w == 0 || w > 3); assert_eq!(x, w); }
        Err(_) => panic!("wrong error variant"),
    }
    let f = RequestFlags::from(b);
    assert_eq!(u8::from(f), b, "flag bits not retained");
    assert_eq!(f.contains(RequestFlags::KeepConn), b & 1 == 1);
    match f.validate() {
        Ok(()) => assert!(b & !1 == 0),
        Err(ProtocolError::UnknownFlags(u)) => { assert!(b & !1 != 0); assert_eq!(u, b & !1); }
        Err(_) => panic!("wrong error variant"),
    }
    kani::cover!(b == 0x39, "mixed known/unknown flags");
    kani::cover!(w == 0x0100, "role with only the high byte set");
    kani::cover!(b == 11, "last record type");
}

fn idx_of(list: &[RecordType], s: RecordType) -> Option<usize> {
    let mut i = 0;
    while i < list.len() { if list[i] == s { return Some(i); } i += 1; }
    None
}

// @harness name=c18_role_tables props=C18,C09 tier=quick timeout=200
// @bound all 3 roles x all current selections (None + every member); finite table decided completely
// @functions Role::input_streams, Role::next_input_stream, Role::output_streams
#[kani::proof]
#[kani::unwind(4)]
fn c18_role_tables() {
    let r: u16 = kani::any();
    kani::assume(1 <= r && r <= 3);
    let role = Role::try_from(r).unwrap();
    let ins = role.input_streams();
    // spec table
    match role {
        Role::Responder => assert!(ins.len() == 1 && ins[0] == RecordType::Stdin),
        Role::Authorizer => assert!(ins.is_empty()),
        Role::Filter => assert!(ins.len() == 2 && ins[0] == RecordType::Stdin && ins[1] == RecordType::Data),
    }
    let outs = role.output_streams();
    assert!(outs.len() == 2 && outs[0] == RecordType::Stdout && outs[1] == RecordType::Stderr);
    // next_input_stream == successor in the list
    let first = role.next_input_stream(None);
    assert_eq!(first, ins.first().copied());
    let k: usize = kani::any();
    if k < ins.len() {
        let nxt = role.next_input_stream(Some(ins[k]));
        assert_eq!(nxt, ins.get(k + 1).copied(), "next_input_stream is not the successor");
        kani::cover!(nxt.is_some(), "Filter: Stdin -> Data");
        kani::cover!(nxt.is_none(), "last stream has no successor");
    }
    kani::cover!(first.is_none(), "Authorizer has no input stream");
}
