// Harnesses for src/protocol/nv.rs (C16).
use super::*;

use crate::verif_kani::{ref_varint, ref_next};

fn off(base: &[u8], p: &[u8]) -> usize { (p.as_ptr() as usize).wrapping_sub(base.as_ptr() as usize) }

fn decode_all_case<const N: usize>() {
    let (a, n) = crate::verif_kani::any_bytes::<N>();
    let data: &[u8] = &a[..n];
    let mut it = NVIter::new(data);
    let hint = it.size_hint();
    assert!(hint.0 == 0 && hint.1 == Some(n / 2));
    let mut o = 0usize;
    let mut count = 0usize;
    loop {
        let r = ref_next(data, o);
        match (it.next(), r) {
            (Some((name, val)), Some((h, nl, vl))) => {
                assert!(name.len() == nl && val.len() == vl, "pair lengths differ from the announced lengths");
                assert!(off(data, name) == o + h, "name is not the sub-slice following the length prefix");
                assert!(off(data, val) == o + h + nl, "value does not follow the name directly");
                o += h + nl + vl;
                count += 1;
                kani::cover!(h == 8 && nl == 0 && vl == 0, "two 4-byte prefixes announcing empty strings");
                kani::cover!(h == 5, "mixed 1-byte/4-byte prefixes");
            }
            (None, None) => break,
            (Some(_), None) => panic!("decoder yielded a pair the reference calls incomplete"),
            (None, Some(_)) => panic!("decoder stopped although a complete pair follows"),
        }
    }
    assert!(it.next().is_none(), "iterator resumed after None");
    assert!(count <= n / 2, "more pairs than the size hint");
    let rest = it.into_inner();
    assert!(rest.len() == n - o && (rest.is_empty() || off(data, rest) == o), "into_inner is not the undecoded suffix");
    kani::cover!(count == N / 2, "maximal number of pairs");
    kani::cover!(count == 1 && o < n, "one pair, then an incomplete tail");
    kani::cover!(n >= 4 && a[0] == 0xff && a[1] == 0xff && a[2] == 0xff && a[3] == 0xff, "prefix announcing 2^31-1 bytes");
}

// @harness name=c16_decode_all_8 props=C16,C03 tier=quick timeout=2400
// @bound every byte string of length 0..8 (all 2^64 contents x 9 lengths); decoded to exhaustion (<= 4 pairs)
// @functions NVIter::new, NVIter<&[u8]>::next, NVIter::size_hint, NVIter::into_inner, VarInt::read, Bytes for &[u8]
#[kani::proof]
#[kani::unwind(6)]
fn c16_decode_all_8() { decode_all_case::<8>(); }

// @harness name=c16_decode_all_11 props=C16,C03 tier=thorough timeout=3000
// @bound every byte string of length 0..11; decoded to exhaustion (<= 5 pairs)
// @functions NVIter::new, NVIter<&[u8]>::next, NVIter::size_hint, NVIter::into_inner, VarInt::read
#[kani::proof]
#[kani::unwind(7)]
fn c16_decode_all_11() { decode_all_case::<11>(); }

fn prefix_case<const N: usize>() {
    let (a, n) = crate::verif_kani::any_bytes::<N>();
    let k: usize = kani::any();
    kani::assume(k <= n);
    let whole: &[u8] = &a[..n];
    let pre: &[u8] = &a[..k];
    let mut itw = NVIter::new(whole);
    let mut itp = NVIter::new(pre);
    let mut cnt = 0;
    loop {
        match itp.next() {
            None => break,
            Some((pn, pv)) => match itw.next() {
                None => panic!("pair decoded from a prefix is missing when decoding the whole input"),
                Some((wn, wv)) => {
                    assert!(off(pre, pn) == off(whole, wn) && pn.len() == wn.len(), "prefix decoding disagrees on a name");
                    assert!(off(pre, pv) == off(whole, wv) && pv.len() == wv.len(), "prefix decoding disagrees on a value");
                    cnt += 1;
                }
            },
        }
    }
    kani::cover!(cnt == 1 && k < n, "proper prefix with one pair, whole input continues");
    kani::cover!(cnt == 0 && k > 0 && k < n, "prefix cuts the first pair");
}

// @harness name=c16_prefix_monotone_8 props=C16 tier=quick timeout=2400
// @bound every byte string of length 0..8 and every prefix length k <= n
// @functions NVIter<&[u8]>::next
#[kani::proof]
#[kani::unwind(6)]
fn c16_prefix_monotone_8() { prefix_case::<8>(); }

// @harness name=c16_prefix_monotone_10 props=C16 tier=thorough timeout=3000
// @bound every byte string of length 0..10 and every prefix length k <= n
// @functions NVIter<&[u8]>::next
#[kani::proof]
#[kani::unwind(7)]
fn c16_prefix_monotone_10() { prefix_case::<10>(); }

fn mut_agrees_case<const N: usize>() {
    let (a, n) = crate::verif_kani::any_bytes::<N>();
    let mut b = a;
    let shared: &[u8] = &a[..n];
    let base = b.as_ptr() as usize;
    let mut its = NVIter::new(shared);
    let mut itm = NVIter::new(&mut b[..n]);
    let mut cnt = 0;
    loop {
        match (its.next(), itm.next()) {
            (None, None) => break,
            (Some((sn, sv)), Some((mn, mv))) => {
                assert!(off(shared, sn) == (mn.as_ptr() as usize).wrapping_sub(base) && sn.len() == mn.len(), "mutable decoder disagrees on a name");
                assert!(off(shared, sv) == (mv.as_ptr() as usize).wrapping_sub(base) && sv.len() == mv.len(), "mutable decoder disagrees on a value");
                // the mutable halves are really writable and distinct
                if !mn.is_empty() { mn[0] = mn[0].wrapping_add(1); }
                if !mv.is_empty() { mv[0] = mv[0].wrapping_add(1); }
                cnt += 1;
            }
            _ => panic!("shared and mutable decoders disagree on the number of pairs"),
        }
    }
    let rs = its.into_inner();
    let rm = itm.into_inner();
    assert!(rs.len() == rm.len(), "remainders differ");
    kani::cover!(cnt == 2, "two pairs");
}

// @harness name=c16_mut_agrees_8 props=C16 tier=quick timeout=2400
// @bound every byte string of length 0..8; shared and mutable iterators run in lockstep
// @functions NVIter<&mut [u8]>::next, NVIter<&[u8]>::next, Bytes for &mut [u8]
#[kani::proof]
#[kani::unwind(6)]
fn c16_mut_agrees_8() { mut_agrees_case::<8>(); }

// @harness name=c16_roundtrip_short props=C16 tier=quick timeout=2400
// @bound two pairs, each name/value length symbolic 0..3 with symbolic contents; writer &mut [u8] of symbolic capacity 0..20
// @functions nv::write, NVIter<&[u8]>::next, VarInt::write, VarInt::try_from
#[kani::proof]
#[kani::unwind(6)]
fn c16_roundtrip_short() {
    let n1: [u8; 3] = kani::any(); let v1: [u8; 3] = kani::any();
    let n2: [u8; 3] = kani::any(); let v2: [u8; 3] = kani::any();
    let (l1, l2, l3, l4): (usize, usize, usize, usize) = (kani::any(), kani::any(), kani::any(), kani::any());
    kani::assume(l1 <= 3 && l2 <= 3 && l3 <= 3 && l4 <= 3);
    let cap: usize = kani::any();
    kani::assume(cap <= 20);
    let mut out = [0u8; 20];
    let need1 = 2 + l1 + l2;
    let need2 = 2 + l3 + l4;
    let (r1, r2, used) = {
        let mut w: &mut [u8] = &mut out[..cap];
        let r1 = write((&n1[..l1], &v1[..l2]), &mut w);
        let r1 = match r1 { Ok(k) => Some(k), Err(e) => { std::mem::forget(e); None } };
        let r2 = if r1.is_some() {
            match write((&n2[..l3], &v2[..l4]), &mut w) { Ok(k) => Some(k), Err(e) => { std::mem::forget(e); None } }
        } else { None };
        (r1, r2, cap - w.len())
    };
    match (r1, r2) {
        (Some(k1), Some(k2)) => {
            assert!(k1 == need1 && k2 == need2, "encoder reported a wrong byte count");
            assert!(used == need1 + need2, "bytes written differ from bytes reported");
            let enc: &[u8] = &out[..used];
            let mut it = NVIter::new(enc);
            match it.next() {
                Some((n, v)) => assert!(crate::verif_kani::eq_bytes(n, &n1[..l1]) && crate::verif_kani::eq_bytes(v, &v1[..l2]), "first pair does not round-trip"),
                None => panic!("first pair lost"),
            }
            match it.next() {
                Some((n, v)) => assert!(crate::verif_kani::eq_bytes(n, &n2[..l3]) && crate::verif_kani::eq_bytes(v, &v2[..l4]), "second pair does not round-trip"),
                None => panic!("second pair lost"),
            }
            assert!(it.next().is_none(), "spurious third pair");
            assert!(it.into_inner().is_empty(), "bytes left over after decoding");
            kani::cover!(l1 == 0 && l2 == 0 && l3 == 3 && l4 == 3, "empty pair followed by a full one");
        }
        (Some(_), None) => { assert!(cap < need1 + need2, "second write failed although space sufficed"); kani::cover!(cap == need1, "exactly one pair fits"); }
        (None, _) => { assert!(cap < need1, "first write failed although space sufficed"); }
    }
}

fn long_case<const NL: usize, const VL: usize>() {
    let name: [u8; NL] = kani::any();
    let val: [u8; VL] = kani::any();
    let mut out = [0u8; 272];
    let res = { let mut w: &mut [u8] = &mut out[..]; write((&name[..], &val[..]), &mut w) };
    let k = match res { Ok(k) => k, Err(e) => { std::mem::forget(e); panic!("write into a large enough buffer failed") } };
    let h = (if NL < 128 { 1 } else { 4 }) + (if VL < 128 { 1 } else { 4 });
    assert!(k == h + NL + VL, "reported byte count wrong at the 127/128 boundary");
    if NL < 128 { assert!(out[0] == NL as u8); } else { assert!(out[0] == 0x80 && out[1] == 0 && out[2] == 0 && out[3] == NL as u8); }
    let tail: u8 = kani::any();
    out[k] = tail; // a following byte must not be consumed
    let enc: &[u8] = &out[..k];
    let mut it = NVIter::new(enc);
    match it.next() {
        Some((n, v)) => {
            assert!(n.len() == NL && v.len() == VL, "decoded lengths differ");
            let i: usize = kani::any();
            if i < NL { assert!(n[i] == name[i], "name byte differs after round trip"); }
            if i < VL { assert!(v[i] == val[i], "value byte differs after round trip"); }
        }
        None => panic!("pair lost"),
    }
    assert!(it.next().is_none());
    assert!(it.into_inner().is_empty());
    // the same bytes with one byte missing must not decode (incomplete pair)
    let mut it2 = NVIter::new(&out[..k - 1]);
    assert!(it2.next().is_none(), "truncated pair decoded");
    kani::cover!(true, "reached");
}

// @harness name=c16_roundtrip_long_127_128 props=C16 tier=quick timeout=400
// @bound one pair, name 127 bytes (largest 1-byte prefix), value 128 bytes (smallest 4-byte prefix), symbolic contents (compared at a symbolic index)
// @functions nv::write, NVIter<&[u8]>::next, VarInt::write
#[kani::proof]
#[kani::unwind(4)]
fn c16_roundtrip_long_127_128() { long_case::<127, 128>(); }

// @harness name=c16_roundtrip_long_128_0 props=C16 tier=quick timeout=400
// @bound one pair, name 128 bytes, empty value, symbolic contents
// @functions nv::write, NVIter<&[u8]>::next, VarInt::write
#[kani::proof]
#[kani::unwind(4)]
fn c16_roundtrip_long_128_0() { long_case::<128, 0>(); }

// @harness name=c16_roundtrip_long_129_129 props=C16 tier=thorough timeout=1200
// @bound one pair, name and value 129 bytes, symbolic contents
// @functions nv::write, NVIter<&[u8]>::next, VarInt::write
#[kani::proof]
#[kani::unwind(4)]
fn c16_roundtrip_long_129_129() { long_case::<129, 129>(); }
