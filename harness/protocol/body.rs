// Harnesses for src/protocol/body.rs (C17 bodies, epilogue).
use super::*;

fn head_ok(rec: &[u8], rtype: u8, id: u16, len: u16) -> bool {
    rec[0] == 1 && rec[1] == rtype && rec[2] == (id >> 8) as u8 && rec[3] == id as u8
        && rec[4] == (len >> 8) as u8 && rec[5] == len as u8 && rec[6] == 0 && rec[7] == 0
}

// @harness name=c17_bodies_decode props=C17 tier=quick timeout=300
// @bound every 8-byte body for UnknownType, BeginRequest, EndRequest; every request id for to_record
// @functions UnknownType::{from_bytes,to_bytes,to_record}, BeginRequest::{from_bytes,to_bytes,to_record}, EndRequest::{from_bytes,to_bytes,to_record}
#[kani::proof]
fn c17_bodies_decode() {
    let d: [u8; 8] = kani::any();
    let id: u16 = kani::any();
    // UnknownType
    let u = UnknownType::from_bytes(d);
    assert_eq!(u.rtype, d[0]);
    let e = u.to_bytes();
    assert!(e[0] == d[0] && e[1] == 0 && e[2] == 0 && e[3] == 0 && e[4] == 0 && e[5] == 0 && e[6] == 0 && e[7] == 0);
    let r = u.to_record(id);
    assert!(head_ok(&r, 11, id, 8), "UnknownType record header wrong");
    assert!(r[8] == d[0] && r[9] == 0 && r[10] == 0 && r[11] == 0 && r[12] == 0 && r[13] == 0 && r[14] == 0 && r[15] == 0);
    // BeginRequest
    let role = ((d[0] as u16) << 8) | d[1] as u16;
    match BeginRequest::from_bytes(d) {
        Ok(b) => {
            assert!(1 <= role && role <= 3, "unknown role accepted");
            assert_eq!(u16::from(b.role), role);
            assert_eq!(u8::from(b.flags), d[2], "flags not retained bit for bit");
            let e = b.to_bytes();
            assert!(e[0] == d[0] && e[1] == d[1] && e[2] == d[2], "BeginRequest re-encoding differs");
            assert!(e[3] == 0 && e[4] == 0 && e[5] == 0 && e[6] == 0 && e[7] == 0, "reserved bytes not zero");
            let r = b.to_record(id);
            assert!(head_ok(&r, 1, id, 8), "BeginRequest record header wrong");
            assert!(r[8] == e[0] && r[9] == e[1] && r[10] == e[2] && r[11] == 0 && r[12] == 0 && r[13] == 0 && r[14] == 0 && r[15] == 0);
            match BeginRequest::from_bytes(e) { Ok(b2) => assert!(b2 == b), Err(_) => panic!("re-decode failed") }
            kani::cover!(d[2] == 0xfe && d[7] != 0, "unknown flags and reserved bytes tolerated");
        }
        Err(ProtocolError::UnknownRole(x)) => {
            assert!(role == 0 || role > 3, "known role rejected");
            assert_eq!(x, role);
            kani::cover!(role == 0x0101, "role 257");
        }
        Err(_) => panic!("wrong error variant"),
    }
    // EndRequest
    match EndRequest::from_bytes(d) {
        Ok(b) => {
            assert!(d[4] <= 3, "unknown protocol status accepted");
            assert_eq!(b.app_status, u32::from_be_bytes([d[0], d[1], d[2], d[3]]));
            assert_eq!(u8::from(b.protocol_status), d[4]);
            let e = b.to_bytes();
            assert!(e[0] == d[0] && e[1] == d[1] && e[2] == d[2] && e[3] == d[3] && e[4] == d[4] && e[5] == 0 && e[6] == 0 && e[7] == 0);
            let r = b.to_record(id);
            assert!(head_ok(&r, 3, id, 8), "EndRequest record header wrong");
            assert!(r[8] == e[0] && r[9] == e[1] && r[10] == e[2] && r[11] == e[3] && r[12] == e[4] && r[13] == 0 && r[14] == 0 && r[15] == 0);
            match EndRequest::from_bytes(e) { Ok(b2) => assert!(b2 == b), Err(_) => panic!("re-decode failed") }
        }
        Err(ProtocolError::UnknownStatus(x)) => { assert!(d[4] > 3); assert_eq!(x, d[4]); kani::cover!(d[4] == 4, "status 4"); }
        Err(_) => panic!("wrong error variant"),
    }
}

fn any_exit() -> ExitStatus {
    let k: u8 = kani::any();
    kani::assume(k < 3);
    match k { 0 => ExitStatus::Complete(kani::any()), 1 => ExitStatus::Overloaded, _ => ExitStatus::UnknownRole }
}

// @harness name=c17_exit_status props=C17,C07,C11 tier=quick timeout=300
// @bound every ExitStatus (all u32 application statuses)
// @functions From<ExitStatus> for EndRequest, ExitStatus::{SUCCESS,ABORT,default}, From<u32> for ExitStatus
#[kani::proof]
fn c17_exit_status() {
    let st = any_exit();
    let er = EndRequest::from(st);
    let (ps, app) = spec_status(st);
    assert_eq!(u8::from(er.protocol_status), ps, "wrong protocol status for exit status");
    assert_eq!(er.app_status, app, "wrong application status for exit status");
    assert!(matches!(ExitStatus::ABORT, ExitStatus::Complete(0x4142_5254)));
    assert!(matches!(ExitStatus::SUCCESS, ExitStatus::Complete(0)));
    assert!(matches!(ExitStatus::default(), ExitStatus::Complete(0)));
    let x: u32 = kani::any();
    assert!(matches!(ExitStatus::from(x), ExitStatus::Complete(y) if y == x));
    kani::cover!(ps == 2, "Overloaded");
    kani::cover!(ps == 0 && app == u32::MAX, "Complete(u32::MAX)");
}

fn spec_status(st: ExitStatus) -> (u8, u32) {
    match st {
        ExitStatus::Complete(c) => (0u8, c),
        ExitStatus::Overloaded => (2, 0),
        ExitStatus::UnknownRole => (3, 0),
    }
}

fn epilogue_case(streams: &[RecordType]) {
    let st = any_exit();
    let id: u16 = kani::any();
    let (ps, app) = spec_status(st);
    let ep = make_request_epilogue(id, st, streams);
    assert_eq!(ep.len(), 8 * streams.len() + 16, "epilogue length");
    let mut i = 0;
    while i < streams.len() {
        let r = &ep[8 * i..8 * i + 8];
        assert!(head_ok(r, u8::from(streams[i]), id, 0), "stream end record wrong");
        i += 1;
    }
    let r = &ep[8 * streams.len()..];
    assert!(head_ok(r, 3, id, 8), "EndRequest header wrong");
    let a = app.to_be_bytes();
    assert!(r[8] == a[0] && r[9] == a[1] && r[10] == a[2] && r[11] == a[3] && r[12] == ps && r[13] == 0 && r[14] == 0 && r[15] == 0,
            "EndRequest body wrong");
    kani::cover!(ps == 0 && app == 0x4142_5254, "ABRT");
    kani::cover!(ps == 3 && id == 0xffff, "UnknownRole, max id");
    std::mem::forget(ep);
}

// @harness name=c17_epilogue_none props=C17,C07,C11 tier=quick timeout=300
// @bound every ExitStatus x every request id; stream list [] (request never became writeable)
// @functions make_request_epilogue
#[kani::proof]
#[kani::unwind(18)]
fn c17_epilogue_none() { epilogue_case(&[]); }

// @harness name=c17_epilogue_both props=C17,C07,C11 tier=quick timeout=300
// @bound every ExitStatus x every request id; stream list [Stdout, Stderr] (the only non-empty list the crate uses)
// @functions make_request_epilogue
#[kani::proof]
#[kani::unwind(18)]
fn c17_epilogue_both() { epilogue_case(&[RecordType::Stdout, RecordType::Stderr]); }

// @harness name=c17_epilogue_one props=C17 tier=thorough timeout=600
// @bound every ExitStatus x every request id; stream list [Stderr]
// @functions make_request_epilogue
#[kani::proof]
#[kani::unwind(18)]
fn c17_epilogue_one() { epilogue_case(&[RecordType::Stderr]); }

// ------------------------------------------------------------------------------------------------ model of make_request_epilogue for the close() harnesses
// The bytes of the epilogue are decided by c17_epilogue_* / c17_exit_status.  The close() harnesses only need a
// LENGTH and that none of its bytes is a reply marker: the model returns that many
// 0x01 bytes from an inline buffer (no loops, no growth) and records its arguments.
pub(crate) static mut GE_ARGS: (u16, u8, usize, usize) = (0, 0, 0, 0);     // (request id, protocol status, number of streams, calls)
pub(crate) fn epilogue_model(request_id: u16, status: ExitStatus, streams: &[RecordType]) -> SmallVec<[u8; EPILOGUE_LEN]> {
    let ps = match status { ExitStatus::Complete(_) => 0u8, ExitStatus::Overloaded => 2, ExitStatus::UnknownRole => 3 };
    unsafe { GE_ARGS = (request_id, ps, streams.len(), GE_ARGS.3 + 1); }
    // the close() harnesses that use this model close a writeable Responder: both output streams.  The length is a
    // literal so that the SmallVec's capacity field stays a constant for the symbolic execution
    assert!(streams.len() == 2, "C07: a writeable Responder must end both of its output streams");
    SmallVec::from_buf_and_len([1u8; EPILOGUE_LEN], EPI_MODEL_LEN)
}
/// Length of the model epilogue.  Deliberately shorter than the real one (32): code that appends to the epilogue
/// buffer (seeded change C07-a) then stays within the inline capacity instead of running into the `nogrow` cut.
pub(crate) const EPI_MODEL_LEN: usize = 8;
