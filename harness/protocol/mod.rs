// Harnesses for src/protocol/mod.rs (C17: RecordHeader).
use super::*;

pub(crate) fn any_rtype() -> RecordType {
    let t: u8 = kani::any();
    kani::assume(1 <= t && t <= 11);
    RecordType::try_from(t).unwrap()
}

// @harness name=c17_header_decode props=C17,C03 tier=quick timeout=200
// @bound every 8-byte string (all 2^64); no loops
// @functions RecordHeader::from_bytes, RecordHeader::to_bytes, Version::try_from, RecordType::try_from
#[kani::proof]
fn c17_header_decode() {
    let d: [u8; 8] = kani::any();
    match RecordHeader::from_bytes(d) {
        Ok(h) => {
            assert!(d[0] == 1 && 1 <= d[1] && d[1] <= 11, "accepted an unknown version or type");
            assert_eq!(u8::from(h.version), d[0]);
            assert_eq!(u8::from(h.rtype), d[1]);
            assert_eq!(h.request_id, ((d[2] as u16) << 8) | d[3] as u16);
            assert_eq!(h.content_length, ((d[4] as u16) << 8) | d[5] as u16);
            assert_eq!(h.padding_length, d[6]);
            let e = h.to_bytes();
            assert!(e[0] == d[0] && e[1] == d[1] && e[2] == d[2] && e[3] == d[3] && e[4] == d[4] && e[5] == d[5] && e[6] == d[6],
                    "re-encoding differs outside the reserved byte");
            assert_eq!(e[7], 0, "reserved byte not zero");
            assert_eq!(h.is_management(), (d[1] >= 9) && d[2] == 0 && d[3] == 0);
            kani::cover!(d[7] != 0, "non-zero reserved byte accepted");
            kani::cover!(d[1] == 11 && d[4] == 0xff && d[5] == 0xff && d[6] == 0xff, "max lengths");
        }
        Err(Error::UnknownVersion(v)) => {
            assert!(d[0] != 1, "version 1 rejected");
            assert_eq!(v, d[0]);
            kani::cover!(d[1] == 0 || d[1] > 11, "bad version reported before bad type");
        }
        Err(Error::UnknownRecordType(t)) => {
            assert!(d[0] == 1, "type error reported although the version is unknown");
            assert!(d[1] == 0 || d[1] > 11, "known type rejected");
            assert_eq!(t, d[1]);
            kani::cover!(d[1] == 0, "type 0");
            kani::cover!(d[1] == 12, "type 12");
            kani::cover!(d[1] == 255, "type 255");
        }
        Err(_) => panic!("unexpected error variant from RecordHeader::from_bytes"),
    }
}

// @harness name=c17_header_roundtrip props=C17 tier=quick timeout=200
// @bound every RecordHeader value (11 types x 2^16 ids x 2^16 lengths x 2^8 paddings)
// @functions RecordHeader::to_bytes, RecordHeader::from_bytes, RecordHeader::new
#[kani::proof]
fn c17_header_roundtrip() {
    let h = RecordHeader { version: Version::V1, rtype: any_rtype(), request_id: kani::any(),
                           content_length: kani::any(), padding_length: kani::any() };
    let e = h.to_bytes();
    assert!(e[0] == 1 && e[1] == u8::from(h.rtype));
    assert!(e[2] == (h.request_id >> 8) as u8 && e[3] == h.request_id as u8);
    assert!(e[4] == (h.content_length >> 8) as u8 && e[5] == h.content_length as u8);
    assert!(e[6] == h.padding_length && e[7] == 0);
    match RecordHeader::from_bytes(e) {
        Ok(g) => assert!(g == h, "decode(encode(h)) != h"),
        Err(_) => panic!("encoded header does not decode"),
    }
    let n = RecordHeader::new(h.rtype, h.request_id);
    assert!(n.version == Version::V1 && n.rtype == h.rtype && n.request_id == h.request_id
            && n.content_length == 0 && n.padding_length == 0);
    kani::cover!(h.request_id == 0xffff && h.content_length == 0xffff, "max id and length");
}

// @harness name=c17_set_lengths props=C17,C10 tier=quick timeout=200
// @bound all 65536 content lengths; all 256 padding_length values for padding_bytes (symbolic index, no loop)
// @functions RecordHeader::set_lengths, RecordHeader::padding_bytes
#[kani::proof]
fn c17_set_lengths() {
    let mut h = RecordHeader::new(any_rtype(), kani::any());
    let len: u16 = kani::any();
    h.set_lengths(len);
    assert_eq!(h.content_length, len);
    assert!(h.padding_length < 8, "padding not below 8");
    assert_eq!((len as u32 + h.padding_length as u32) % 8, 0, "content + padding not a multiple of 8");
    let pb = h.padding_bytes();
    assert_eq!(pb.len(), h.padding_length as usize);
    kani::cover!(len == 65535 && h.padding_length == 1, "65535 -> 1");
    kani::cover!(len % 8 == 0 && h.padding_length == 0, "aligned -> 0");
    kani::cover!(len % 8 == 1 && h.padding_length == 7, "-> 7");
    // arbitrary padding_length (as used when counting down during a partial write)
    let mut g = h;
    g.padding_length = kani::any();
    let pb = g.padding_bytes();
    assert_eq!(pb.len(), g.padding_length as usize);
    let i: usize = kani::any();
    if i < pb.len() { assert_eq!(pb[i], 0, "padding byte not zero"); }
    kani::cover!(g.padding_length == 255 && i == 254, "last of 255 padding bytes");
}
