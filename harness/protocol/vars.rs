// Harnesses for src/protocol/vars.rs (C17-V: GetValuesResult generation, parse_name).
use super::*;
use std::num::NonZeroUsize;
use smallvec::SmallVec;

const NAMES: [&[u8]; 3] = [b"FCGI_MAX_CONNS", b"FCGI_MAX_REQS", b"FCGI_MPXS_CONNS"];

/// Reference decimal rendering = the ghost digits published by `any_decimal` (no division anywhere).
fn ref_decimal(v: usize) -> ([u8; 20], usize) {
    unsafe { assert!(v == crate::verif_kani::G_VALUE); (crate::verif_kani::G_DIGITS, crate::verif_kani::G_NDIG) }
}

/// Checks one GetValuesResult record at `rec` against the spec for `bits`/`mc`; returns its total length.
pub(crate) fn check_values_result(rec: &[u8], bits: u8, mc: usize) -> usize {
    let (dec, dn) = ref_decimal(mc);
    assert!(rec.len() >= 8, "reply shorter than a header");
    assert!(rec[0] == 1 && rec[1] == 10 && rec[2] == 0 && rec[3] == 0 && rec[7] == 0, "not a GetValuesResult header with id 0");
    let clen = ((rec[4] as usize) << 8) | rec[5] as usize;
    let pad = rec[6] as usize;
    assert!(pad < 8 && (clen + pad) % 8 == 0, "padding rule violated");
    assert_eq!(rec.len(), 8 + clen + pad, "record length differs from header");
    let mut off = 8;
    let mut k = 0;
    while k < 3 {
        if bits & (1 << k) != 0 {
            let name = NAMES[k];
            let vlen = if k == 2 { 1 } else { dn };
            assert!(rec[off] as usize == name.len() && rec[off + 1] as usize == vlen, "pair length prefix wrong");
            off += 2;
            let mut i = 0;
            while i < name.len() { assert!(rec[off + i] == name[i], "variable name wrong"); i += 1; }
            off += name.len();
            if k == 2 { assert!(rec[off] == b'0', "FCGI_MPXS_CONNS must be 0"); }
            else { let mut i = 0; while i < dn { assert!(rec[off + i] == dec[i], "connection limit value wrong"); i += 1; } }
            off += vlen;
        }
        k += 1;
    }
    assert_eq!(off, 8 + clen, "content length differs from the pairs written");
    let mut i = 0;
    while i < pad { assert!(rec[off + i] == 0, "padding not zero"); i += 1; }
    assert!(rec.len() <= ProtocolVariables::RESPONSE_LEN, "reply longer than RESPONSE_LEN");
    rec.len()
}

fn write_response_case<V: crate::ext::BytesVec>(mut out: V, pre: usize, nd: usize, bits: u8) {
    let mc = crate::verif_kani::any_decimal(nd);
    let cfg = Config { buffer_size: 8192, max_conns: NonZeroUsize::new(mc).unwrap() };
    let vars = ProtocolVariables::from_bits_truncate(bits);
    let n = vars.write_response(&mut out, &cfg);
    assert_eq!(out.len(), pre + n, "reported count differs from bytes appended");
    let mut i = 0;
    while i < pre { assert!(out[i] == 0xC0 + i as u8, "existing buffer contents modified"); i += 1; }
    let m = check_values_result(&out[pre..], bits, mc);
    assert_eq!(m, n);
    kani::cover!(unsafe { crate::verif_kani::G_DIGITS[nd - 1] } == b'9', "last digit 9");
    kani::cover!(unsafe { crate::verif_kani::G_DIGITS[nd - 1] } == b'0' || nd == 1, "last digit 0 (or single digit)");
}

fn prefilled_vec(pre: usize) -> Vec<u8> {
    let mut v = Vec::with_capacity(128);
    let mut i = 0; while i < pre { v.push(0xC0 + i as u8); i += 1; }
    v
}

macro_rules! wr_harness {
    ($name:ident, $bits:expr, $d:expr, $pre:expr, $mk:expr) => {
        #[kani::proof]
        #[kani::unwind(24)]
        #[kani::stub(compact_str::repr::ensure_read, crate::verif_kani::ensure_read_id)]
        #[kani::stub(compact_str::ToCompactString::to_compact_string, crate::verif_kani::TcsModel::tcs_model)]
        fn $name() {
            write_response_case($mk, $pre, $d, $bits);
        }
    };
}

fn prefilled_small(pre: usize) -> SmallVec<[u8; 104]> {
    let mut v: SmallVec<[u8; 104]> = SmallVec::new();
    let mut i = 0; while i < pre { v.push(0xC0 + i as u8); i += 1; }
    v
}

// @harness name=c17_wr_vec_b7_d1 props=C17,C04 tier=quick timeout=1500
// @bound variable subset 111 (bits 7) x every max_conns with 1 decimal digits x Vec<u8> pre-filled with 3 bytes; to_compact_string = E5b model
// @functions ProtocolVariables::write_response<Vec<u8>>, nv::write, RecordHeader::set_lengths, RecordHeader::padding_bytes
wr_harness!(c17_wr_vec_b7_d1, 7, 1, 3, prefilled_vec(3));
// @harness name=c17_wr_vec_b7_d20 props=C17,C04 tier=quick timeout=1500
// @bound variable subset 111 (bits 7) x every max_conns with 20 decimal digits x Vec<u8> pre-filled with 0 bytes; to_compact_string = E5b model
// @functions ProtocolVariables::write_response<Vec<u8>>, nv::write, RecordHeader::set_lengths, RecordHeader::padding_bytes
wr_harness!(c17_wr_vec_b7_d20, 7, 20, 0, prefilled_vec(0));
// @harness name=c17_wr_vec_b5_d2 props=C17,C04 tier=quick timeout=1500
// @bound variable subset 101 (bits 5) x every max_conns with 2 decimal digits x Vec<u8> pre-filled with 0 bytes; to_compact_string = E5b model
// @functions ProtocolVariables::write_response<Vec<u8>>, nv::write, RecordHeader::set_lengths, RecordHeader::padding_bytes
wr_harness!(c17_wr_vec_b5_d2, 5, 2, 0, prefilled_vec(0));
// @harness name=c17_wr_vec_b0_d1 props=C17,C04 tier=quick timeout=1500
// @bound variable subset 000 (bits 0) x every max_conns with 1 decimal digits x Vec<u8> pre-filled with 1 bytes; to_compact_string = E5b model
// @functions ProtocolVariables::write_response<Vec<u8>>, nv::write, RecordHeader::set_lengths, RecordHeader::padding_bytes
wr_harness!(c17_wr_vec_b0_d1, 0, 1, 1, prefilled_vec(1));
// @harness name=c17_wr_small_b2_d1 props=C17,C04 tier=quick timeout=1500
// @bound variable subset 010 (bits 2) x every max_conns with 1 decimal digits x SmallVec<[u8;104]> pre-filled with 2 bytes; to_compact_string = E5b model
// @functions ProtocolVariables::write_response<SmallVec<[u8;104]>>, nv::write, RecordHeader::set_lengths, RecordHeader::padding_bytes
wr_harness!(c17_wr_small_b2_d1, 2, 1, 2, prefilled_small(2));
// @harness name=c17_wr_small_b7_d20 props=C17,C04 tier=quick timeout=1500
// @bound variable subset 111 (bits 7) x every max_conns with 20 decimal digits x SmallVec<[u8;104]> pre-filled with 0 bytes; to_compact_string = E5b model
// @functions ProtocolVariables::write_response<SmallVec<[u8;104]>>, nv::write, RecordHeader::set_lengths, RecordHeader::padding_bytes
wr_harness!(c17_wr_small_b7_d20, 7, 20, 0, prefilled_small(0));
// @harness name=c17_wr_vec_b0_d2 props=C17,C04 tier=thorough timeout=1500
// @bound variable subset 000 (bits 0) x every max_conns with 2 decimal digits x Vec<u8> pre-filled with 0 bytes; to_compact_string = E5b model
// @functions ProtocolVariables::write_response<Vec<u8>>, nv::write, RecordHeader::set_lengths, RecordHeader::padding_bytes
wr_harness!(c17_wr_vec_b0_d2, 0, 2, 0, prefilled_vec(0));
// @harness name=c17_wr_vec_b0_d3 props=C17,C04 tier=thorough timeout=1500
// @bound variable subset 000 (bits 0) x every max_conns with 3 decimal digits x Vec<u8> pre-filled with 0 bytes; to_compact_string = E5b model
// @functions ProtocolVariables::write_response<Vec<u8>>, nv::write, RecordHeader::set_lengths, RecordHeader::padding_bytes
wr_harness!(c17_wr_vec_b0_d3, 0, 3, 0, prefilled_vec(0));
// @harness name=c17_wr_vec_b0_d10 props=C17,C04 tier=thorough timeout=1500
// @bound variable subset 000 (bits 0) x every max_conns with 10 decimal digits x Vec<u8> pre-filled with 0 bytes; to_compact_string = E5b model
// @functions ProtocolVariables::write_response<Vec<u8>>, nv::write, RecordHeader::set_lengths, RecordHeader::padding_bytes
wr_harness!(c17_wr_vec_b0_d10, 0, 10, 0, prefilled_vec(0));
// @harness name=c17_wr_vec_b0_d19 props=C17,C04 tier=thorough timeout=1500
// @bound variable subset 000 (bits 0) x every max_conns with 19 decimal digits x Vec<u8> pre-filled with 0 bytes; to_compact_string = E5b model
// @functions ProtocolVariables::write_response<Vec<u8>>, nv::write, RecordHeader::set_lengths, RecordHeader::padding_bytes
wr_harness!(c17_wr_vec_b0_d19, 0, 19, 0, prefilled_vec(0));
// @harness name=c17_wr_vec_b0_d20 props=C17,C04 tier=thorough timeout=1500
// @bound variable subset 000 (bits 0) x every max_conns with 20 decimal digits x Vec<u8> pre-filled with 0 bytes; to_compact_string = E5b model
// @functions ProtocolVariables::write_response<Vec<u8>>, nv::write, RecordHeader::set_lengths, RecordHeader::padding_bytes
wr_harness!(c17_wr_vec_b0_d20, 0, 20, 0, prefilled_vec(0));
// @harness name=c17_wr_vec_b1_d1 props=C17,C04 tier=thorough timeout=1500
// @bound variable subset 001 (bits 1) x every max_conns with 1 decimal digits x Vec<u8> pre-filled with 0 bytes; to_compact_string = E5b model
// @functions ProtocolVariables::write_response<Vec<u8>>, nv::write, RecordHeader::set_lengths, RecordHeader::padding_bytes
wr_harness!(c17_wr_vec_b1_d1, 1, 1, 0, prefilled_vec(0));
// @harness name=c17_wr_vec_b1_d2 props=C17,C04 tier=thorough timeout=1500
// @bound variable subset 001 (bits 1) x every max_conns with 2 decimal digits x Vec<u8> pre-filled with 0 bytes; to_compact_string = E5b model
// @functions ProtocolVariables::write_response<Vec<u8>>, nv::write, RecordHeader::set_lengths, RecordHeader::padding_bytes
wr_harness!(c17_wr_vec_b1_d2, 1, 2, 0, prefilled_vec(0));
// @harness name=c17_wr_vec_b1_d3 props=C17,C04 tier=thorough timeout=1500
// @bound variable subset 001 (bits 1) x every max_conns with 3 decimal digits x Vec<u8> pre-filled with 0 bytes; to_compact_string = E5b model
// @functions ProtocolVariables::write_response<Vec<u8>>, nv::write, RecordHeader::set_lengths, RecordHeader::padding_bytes
wr_harness!(c17_wr_vec_b1_d3, 1, 3, 0, prefilled_vec(0));
// @harness name=c17_wr_vec_b1_d10 props=C17,C04 tier=thorough timeout=1500
// @bound variable subset 001 (bits 1) x every max_conns with 10 decimal digits x Vec<u8> pre-filled with 0 bytes; to_compact_string = E5b model
// @functions ProtocolVariables::write_response<Vec<u8>>, nv::write, RecordHeader::set_lengths, RecordHeader::padding_bytes
wr_harness!(c17_wr_vec_b1_d10, 1, 10, 0, prefilled_vec(0));
// @harness name=c17_wr_vec_b1_d19 props=C17,C04 tier=thorough timeout=1500
// @bound variable subset 001 (bits 1) x every max_conns with 19 decimal digits x Vec<u8> pre-filled with 0 bytes; to_compact_string = E5b model
// @functions ProtocolVariables::write_response<Vec<u8>>, nv::write, RecordHeader::set_lengths, RecordHeader::padding_bytes
wr_harness!(c17_wr_vec_b1_d19, 1, 19, 0, prefilled_vec(0));
// @harness name=c17_wr_vec_b1_d20 props=C17,C04 tier=thorough timeout=1500
// @bound variable subset 001 (bits 1) x every max_conns with 20 decimal digits x Vec<u8> pre-filled with 0 bytes; to_compact_string = E5b model
// @functions ProtocolVariables::write_response<Vec<u8>>, nv::write, RecordHeader::set_lengths, RecordHeader::padding_bytes
wr_harness!(c17_wr_vec_b1_d20, 1, 20, 0, prefilled_vec(0));
// @harness name=c17_wr_vec_b2_d1 props=C17,C04 tier=thorough timeout=1500
// @bound variable subset 010 (bits 2) x every max_conns with 1 decimal digits x Vec<u8> pre-filled with 0 bytes; to_compact_string = E5b model
// @functions ProtocolVariables::write_response<Vec<u8>>, nv::write, RecordHeader::set_lengths, RecordHeader::padding_bytes
wr_harness!(c17_wr_vec_b2_d1, 2, 1, 0, prefilled_vec(0));
// @harness name=c17_wr_vec_b2_d2 props=C17,C04 tier=thorough timeout=1500
// @bound variable subset 010 (bits 2) x every max_conns with 2 decimal digits x Vec<u8> pre-filled with 0 bytes; to_compact_string = E5b model
// @functions ProtocolVariables::write_response<Vec<u8>>, nv::write, RecordHeader::set_lengths, RecordHeader::padding_bytes
wr_harness!(c17_wr_vec_b2_d2, 2, 2, 0, prefilled_vec(0));
// @harness name=c17_wr_vec_b2_d3 props=C17,C04 tier=thorough timeout=1500
// @bound variable subset 010 (bits 2) x every max_conns with 3 decimal digits x Vec<u8> pre-filled with 0 bytes; to_compact_string = E5b model
// @functions ProtocolVariables::write_response<Vec<u8>>, nv::write, RecordHeader::set_lengths, RecordHeader::padding_bytes
wr_harness!(c17_wr_vec_b2_d3, 2, 3, 0, prefilled_vec(0));
// @harness name=c17_wr_vec_b2_d10 props=C17,C04 tier=thorough timeout=1500
// @bound variable subset 010 (bits 2) x every max_conns with 10 decimal digits x Vec<u8> pre-filled with 0 bytes; to_compact_string = E5b model
// @functions ProtocolVariables::write_response<Vec<u8>>, nv::write, RecordHeader::set_lengths, RecordHeader::padding_bytes
wr_harness!(c17_wr_vec_b2_d10, 2, 10, 0, prefilled_vec(0));
// @harness name=c17_wr_vec_b2_d19 props=C17,C04 tier=thorough timeout=1500
// @bound variable subset 010 (bits 2) x every max_conns with 19 decimal digits x Vec<u8> pre-filled with 0 bytes; to_compact_string = E5b model
// @functions ProtocolVariables::write_response<Vec<u8>>, nv::write, RecordHeader::set_lengths, RecordHeader::padding_bytes
wr_harness!(c17_wr_vec_b2_d19, 2, 19, 0, prefilled_vec(0));
// @harness name=c17_wr_vec_b2_d20 props=C17,C04 tier=thorough timeout=1500
// @bound variable subset 010 (bits 2) x every max_conns with 20 decimal digits x Vec<u8> pre-filled with 0 bytes; to_compact_string = E5b model
// @functions ProtocolVariables::write_response<Vec<u8>>, nv::write, RecordHeader::set_lengths, RecordHeader::padding_bytes
wr_harness!(c17_wr_vec_b2_d20, 2, 20, 0, prefilled_vec(0));
// @harness name=c17_wr_vec_b3_d1 props=C17,C04 tier=thorough timeout=1500
// @bound variable subset 011 (bits 3) x every max_conns with 1 decimal digits x Vec<u8> pre-filled with 0 bytes; to_compact_string = E5b model
// @functions ProtocolVariables::write_response<Vec<u8>>, nv::write, RecordHeader::set_lengths, RecordHeader::padding_bytes
wr_harness!(c17_wr_vec_b3_d1, 3, 1, 0, prefilled_vec(0));
// @harness name=c17_wr_vec_b3_d2 props=C17,C04 tier=thorough timeout=1500
// @bound variable subset 011 (bits 3) x every max_conns with 2 decimal digits x Vec<u8> pre-filled with 0 bytes; to_compact_string = E5b model
// @functions ProtocolVariables::write_response<Vec<u8>>, nv::write, RecordHeader::set_lengths, RecordHeader::padding_bytes
wr_harness!(c17_wr_vec_b3_d2, 3, 2, 0, prefilled_vec(0));
// @harness name=c17_wr_vec_b3_d3 props=C17,C04 tier=thorough timeout=1500
// @bound variable subset 011 (bits 3) x every max_conns with 3 decimal digits x Vec<u8> pre-filled with 0 bytes; to_compact_string = E5b model
// @functions ProtocolVariables::write_response<Vec<u8>>, nv::write, RecordHeader::set_lengths, RecordHeader::padding_bytes
wr_harness!(c17_wr_vec_b3_d3, 3, 3, 0, prefilled_vec(0));
// @harness name=c17_wr_vec_b3_d10 props=C17,C04 tier=thorough timeout=1500
// @bound variable subset 011 (bits 3) x every max_conns with 10 decimal digits x Vec<u8> pre-filled with 0 bytes; to_compact_string = E5b model
// @functions ProtocolVariables::write_response<Vec<u8>>, nv::write, RecordHeader::set_lengths, RecordHeader::padding_bytes
wr_harness!(c17_wr_vec_b3_d10, 3, 10, 0, prefilled_vec(0));
// @harness name=c17_wr_vec_b3_d19 props=C17,C04 tier=thorough timeout=1500
// @bound variable subset 011 (bits 3) x every max_conns with 19 decimal digits x Vec<u8> pre-filled with 0 bytes; to_compact_string = E5b model
// @functions ProtocolVariables::write_response<Vec<u8>>, nv::write, RecordHeader::set_lengths, RecordHeader::padding_bytes
wr_harness!(c17_wr_vec_b3_d19, 3, 19, 0, prefilled_vec(0));
// @harness name=c17_wr_vec_b3_d20 props=C17,C04 tier=thorough timeout=1500
// @bound variable subset 011 (bits 3) x every max_conns with 20 decimal digits x Vec<u8> pre-filled with 0 bytes; to_compact_string = E5b model
// @functions ProtocolVariables::write_response<Vec<u8>>, nv::write, RecordHeader::set_lengths, RecordHeader::padding_bytes
wr_harness!(c17_wr_vec_b3_d20, 3, 20, 0, prefilled_vec(0));
// @harness name=c17_wr_vec_b4_d1 props=C17,C04 tier=thorough timeout=1500
// @bound variable subset 100 (bits 4) x every max_conns with 1 decimal digits x Vec<u8> pre-filled with 0 bytes; to_compact_string = E5b model
// @functions ProtocolVariables::write_response<Vec<u8>>, nv::write, RecordHeader::set_lengths, RecordHeader::padding_bytes
wr_harness!(c17_wr_vec_b4_d1, 4, 1, 0, prefilled_vec(0));
// @harness name=c17_wr_vec_b4_d2 props=C17,C04 tier=thorough timeout=1500
// @bound variable subset 100 (bits 4) x every max_conns with 2 decimal digits x Vec<u8> pre-filled with 0 bytes; to_compact_string = E5b model
// @functions ProtocolVariables::write_response<Vec<u8>>, nv::write, RecordHeader::set_lengths, RecordHeader::padding_bytes
wr_harness!(c17_wr_vec_b4_d2, 4, 2, 0, prefilled_vec(0));
// @harness name=c17_wr_vec_b4_d3 props=C17,C04 tier=thorough timeout=1500
// @bound variable subset 100 (bits 4) x every max_conns with 3 decimal digits x Vec<u8> pre-filled with 0 bytes; to_compact_string = E5b model
// @functions ProtocolVariables::write_response<Vec<u8>>, nv::write, RecordHeader::set_lengths, RecordHeader::padding_bytes
wr_harness!(c17_wr_vec_b4_d3, 4, 3, 0, prefilled_vec(0));
// @harness name=c17_wr_vec_b4_d10 props=C17,C04 tier=thorough timeout=1500
// @bound variable subset 100 (bits 4) x every max_conns with 10 decimal digits x Vec<u8> pre-filled with 0 bytes; to_compact_string = E5b model
// @functions ProtocolVariables::write_response<Vec<u8>>, nv::write, RecordHeader::set_lengths, RecordHeader::padding_bytes
wr_harness!(c17_wr_vec_b4_d10, 4, 10, 0, prefilled_vec(0));
// @harness name=c17_wr_vec_b4_d19 props=C17,C04 tier=thorough timeout=1500
// @bound variable subset 100 (bits 4) x every max_conns with 19 decimal digits x Vec<u8> pre-filled with 0 bytes; to_compact_string = E5b model
// @functions ProtocolVariables::write_response<Vec<u8>>, nv::write, RecordHeader::set_lengths, RecordHeader::padding_bytes
wr_harness!(c17_wr_vec_b4_d19, 4, 19, 0, prefilled_vec(0));
// @harness name=c17_wr_vec_b4_d20 props=C17,C04 tier=thorough timeout=1500
// @bound variable subset 100 (bits 4) x every max_conns with 20 decimal digits x Vec<u8> pre-filled with 0 bytes; to_compact_string = E5b model
// @functions ProtocolVariables::write_response<Vec<u8>>, nv::write, RecordHeader::set_lengths, RecordHeader::padding_bytes
wr_harness!(c17_wr_vec_b4_d20, 4, 20, 0, prefilled_vec(0));
// @harness name=c17_wr_vec_b5_d1 props=C17,C04 tier=thorough timeout=1500
// @bound variable subset 101 (bits 5) x every max_conns with 1 decimal digits x Vec<u8> pre-filled with 0 bytes; to_compact_string = E5b model
// @functions ProtocolVariables::write_response<Vec<u8>>, nv::write, RecordHeader::set_lengths, RecordHeader::padding_bytes
wr_harness!(c17_wr_vec_b5_d1, 5, 1, 0, prefilled_vec(0));
// @harness name=c17_wr_vec_b5_d3 props=C17,C04 tier=thorough timeout=1500
// @bound variable subset 101 (bits 5) x every max_conns with 3 decimal digits x Vec<u8> pre-filled with 0 bytes; to_compact_string = E5b model
// @functions ProtocolVariables::write_response<Vec<u8>>, nv::write, RecordHeader::set_lengths, RecordHeader::padding_bytes
wr_harness!(c17_wr_vec_b5_d3, 5, 3, 0, prefilled_vec(0));
// @harness name=c17_wr_vec_b5_d10 props=C17,C04 tier=thorough timeout=1500
// @bound variable subset 101 (bits 5) x every max_conns with 10 decimal digits x Vec<u8> pre-filled with 0 bytes; to_compact_string = E5b model
// @functions ProtocolVariables::write_response<Vec<u8>>, nv::write, RecordHeader::set_lengths, RecordHeader::padding_bytes
wr_harness!(c17_wr_vec_b5_d10, 5, 10, 0, prefilled_vec(0));
// @harness name=c17_wr_vec_b5_d19 props=C17,C04 tier=thorough timeout=1500
// @bound variable subset 101 (bits 5) x every max_conns with 19 decimal digits x Vec<u8> pre-filled with 0 bytes; to_compact_string = E5b model
// @functions ProtocolVariables::write_response<Vec<u8>>, nv::write, RecordHeader::set_lengths, RecordHeader::padding_bytes
wr_harness!(c17_wr_vec_b5_d19, 5, 19, 0, prefilled_vec(0));
// @harness name=c17_wr_vec_b5_d20 props=C17,C04 tier=thorough timeout=1500
// @bound variable subset 101 (bits 5) x every max_conns with 20 decimal digits x Vec<u8> pre-filled with 0 bytes; to_compact_string = E5b model
// @functions ProtocolVariables::write_response<Vec<u8>>, nv::write, RecordHeader::set_lengths, RecordHeader::padding_bytes
wr_harness!(c17_wr_vec_b5_d20, 5, 20, 0, prefilled_vec(0));
// @harness name=c17_wr_vec_b6_d1 props=C17,C04 tier=thorough timeout=1500
// @bound variable subset 110 (bits 6) x every max_conns with 1 decimal digits x Vec<u8> pre-filled with 0 bytes; to_compact_string = E5b model
// @functions ProtocolVariables::write_response<Vec<u8>>, nv::write, RecordHeader::set_lengths, RecordHeader::padding_bytes
wr_harness!(c17_wr_vec_b6_d1, 6, 1, 0, prefilled_vec(0));
// @harness name=c17_wr_vec_b6_d2 props=C17,C04 tier=thorough timeout=1500
// @bound variable subset 110 (bits 6) x every max_conns with 2 decimal digits x Vec<u8> pre-filled with 0 bytes; to_compact_string = E5b model
// @functions ProtocolVariables::write_response<Vec<u8>>, nv::write, RecordHeader::set_lengths, RecordHeader::padding_bytes
wr_harness!(c17_wr_vec_b6_d2, 6, 2, 0, prefilled_vec(0));
// @harness name=c17_wr_vec_b6_d3 props=C17,C04 tier=thorough timeout=1500
// @bound variable subset 110 (bits 6) x every max_conns with 3 decimal digits x Vec<u8> pre-filled with 0 bytes; to_compact_string = E5b model
// @functions ProtocolVariables::write_response<Vec<u8>>, nv::write, RecordHeader::set_lengths, RecordHeader::padding_bytes
wr_harness!(c17_wr_vec_b6_d3, 6, 3, 0, prefilled_vec(0));
// @harness name=c17_wr_vec_b6_d10 props=C17,C04 tier=thorough timeout=1500
// @bound variable subset 110 (bits 6) x every max_conns with 10 decimal digits x Vec<u8> pre-filled with 0 bytes; to_compact_string = E5b model
// @functions ProtocolVariables::write_response<Vec<u8>>, nv::write, RecordHeader::set_lengths, RecordHeader::padding_bytes
wr_harness!(c17_wr_vec_b6_d10, 6, 10, 0, prefilled_vec(0));
// @harness name=c17_wr_vec_b6_d19 props=C17,C04 tier=thorough timeout=1500
// @bound variable subset 110 (bits 6) x every max_conns with 19 decimal digits x Vec<u8> pre-filled with 0 bytes; to_compact_string = E5b model
// @functions ProtocolVariables::write_response<Vec<u8>>, nv::write, RecordHeader::set_lengths, RecordHeader::padding_bytes
wr_harness!(c17_wr_vec_b6_d19, 6, 19, 0, prefilled_vec(0));
// @harness name=c17_wr_vec_b6_d20 props=C17,C04 tier=thorough timeout=1500
// @bound variable subset 110 (bits 6) x every max_conns with 20 decimal digits x Vec<u8> pre-filled with 0 bytes; to_compact_string = E5b model
// @functions ProtocolVariables::write_response<Vec<u8>>, nv::write, RecordHeader::set_lengths, RecordHeader::padding_bytes
wr_harness!(c17_wr_vec_b6_d20, 6, 20, 0, prefilled_vec(0));
// @harness name=c17_wr_vec_b7_d2 props=C17,C04 tier=thorough timeout=1500
// @bound variable subset 111 (bits 7) x every max_conns with 2 decimal digits x Vec<u8> pre-filled with 0 bytes; to_compact_string = E5b model
// @functions ProtocolVariables::write_response<Vec<u8>>, nv::write, RecordHeader::set_lengths, RecordHeader::padding_bytes
wr_harness!(c17_wr_vec_b7_d2, 7, 2, 0, prefilled_vec(0));
// @harness name=c17_wr_vec_b7_d3 props=C17,C04 tier=thorough timeout=1500
// @bound variable subset 111 (bits 7) x every max_conns with 3 decimal digits x Vec<u8> pre-filled with 0 bytes; to_compact_string = E5b model
// @functions ProtocolVariables::write_response<Vec<u8>>, nv::write, RecordHeader::set_lengths, RecordHeader::padding_bytes
wr_harness!(c17_wr_vec_b7_d3, 7, 3, 0, prefilled_vec(0));
// @harness name=c17_wr_vec_b7_d10 props=C17,C04 tier=thorough timeout=1500
// @bound variable subset 111 (bits 7) x every max_conns with 10 decimal digits x Vec<u8> pre-filled with 0 bytes; to_compact_string = E5b model
// @functions ProtocolVariables::write_response<Vec<u8>>, nv::write, RecordHeader::set_lengths, RecordHeader::padding_bytes
wr_harness!(c17_wr_vec_b7_d10, 7, 10, 0, prefilled_vec(0));
// @harness name=c17_wr_vec_b7_d19 props=C17,C04 tier=thorough timeout=1500
// @bound variable subset 111 (bits 7) x every max_conns with 19 decimal digits x Vec<u8> pre-filled with 0 bytes; to_compact_string = E5b model
// @functions ProtocolVariables::write_response<Vec<u8>>, nv::write, RecordHeader::set_lengths, RecordHeader::padding_bytes
wr_harness!(c17_wr_vec_b7_d19, 7, 19, 0, prefilled_vec(0));

// ------------------------------------------------------------------------------------------------ parse_name (real)

fn expect_name(bytes: &[u8], want: Option<u8>) {
    match (ProtocolVariables::parse_name(bytes), want) {
        (Ok(v), Some(bits)) => assert!(v.bits() == bits, "wrong variable for a known name"),
        (Err(ProtocolError::UnknownVariable), None) => {}
        (Ok(_), None) => panic!("a name that is not exactly one of the three variable names was recognised"),
        (Err(ProtocolError::UnknownVariable), Some(_)) => panic!("an exact variable name was not recognised"),
        (Err(_), _) => panic!("wrong error variant"),
    }
}

fn parse_name_case(which: usize) {
    let name = NAMES[which];
    let mut buf = [0u8; 16];
    let mut i = 0; while i < name.len() { buf[i] = name[i]; i += 1; }
    // exact, truncated by one, empty (concrete inputs)
    expect_name(&buf[..name.len()], Some(1 << which));
    expect_name(&buf[..name.len() - 1], None);
    expect_name(&buf[..0], None);
    // one byte at a symbolic position replaced by any other byte value (incl. non-UTF-8)
    let k: usize = kani::any();
    kani::assume(k < name.len());
    let b: u8 = kani::any();
    kani::assume(b != name[k]);
    let mut m = buf;
    m[k] = b;
    expect_name(&m[..name.len()], None);
    // extended by one symbolic byte
    let mut e = buf;
    e[name.len()] = kani::any();
    expect_name(&e[..name.len() + 1], None);
    kani::cover!(b == name[k] + 32, "same name with one lower-case letter is unknown");
    kani::cover!(b >= 0x80, "non-UTF-8 byte inside the name");
}

// @harness name=c17_parse_name_max_conns props=C17,C04 tier=quick timeout=2400
// @bound FCGI_MAX_CONNS: exact, truncated, empty, extended by one symbolic byte, and with ONE byte at a symbolic position replaced by any other value (incl. non-UTF-8)
// @functions ProtocolVariables::parse_name, bitflags from_name
#[kani::proof]
#[kani::unwind(20)]
fn c17_parse_name_max_conns() { parse_name_case(0); }

// @harness name=c17_parse_name_max_reqs props=C17,C04 tier=thorough timeout=3000
// @bound FCGI_MAX_REQS: as c17_parse_name_max_conns
// @functions ProtocolVariables::parse_name
#[kani::proof]
#[kani::unwind(20)]
fn c17_parse_name_max_reqs() { parse_name_case(1); }

// @harness name=c17_parse_name_mpxs_conns props=C17,C04 tier=thorough timeout=3000
// @bound FCGI_MPXS_CONNS: as c17_parse_name_max_conns
// @functions ProtocolVariables::parse_name
#[kani::proof]
#[kani::unwind(20)]
fn c17_parse_name_mpxs_conns() { parse_name_case(2); }
