// Harnesses for src/protocol/vars.rs (C17-V: GetValuesResult generation, parse_name).
use super::*;
use std::num::NonZeroUsize;
use smallvec::SmallVec;

const NAMES: [&[u8]; 3] = [b"FCGI_MAX_CONNS", b"FCGI_MAX_REQS", b"FCGI_MPXS_CONNS"];

/// Reference decimal rendering (digits most significant first); returns (buf, len).
fn ref_decimal(mut v: usize) -> ([u8; 20], usize) {
    let mut tmp = [0u8; 20];
    let mut n = 0;
    loop {
        tmp[n] = b'0' + (v % 10) as u8;
        n += 1;
        v /= 10;
        if v == 0 { break; }
    }
    let mut out = [0u8; 20];
    let mut i = 0;
    while i < n { out[i] = tmp[n - 1 - i]; i += 1; }
    (out, n)
}

/// Checks one GetValuesResult record at `rec` against the spec for `bits`/`mc`; returns its total length.
pub(crate) fn check_values_result(rec: &[u8], bits: u8, mc: usize) -> usize {
    let (dec, dn) = ref_decimal(mc);
    assert!(rec.len() >= 8, "reply shorter than a header");
    assert!(rec[0] == 1 && rec[1] == 10 && rec[2] == 0 && rec[3] == 0 && rec[7] == 0, "not a GetValuesResult header with id 0");
    let clen = ((rec[4] as usize) << 8) | rec[5] as usize;
    let pad = rec[6] as usize;
    assert!(pad < 8 && (clen + pad) % 8 == 0, "padding rule violated");
    assert_eq!(rec.len(), 8 + clen + pad, "record length differs from header");
    let mut off = 8;
    let mut k = 0;
    while k < 3 {
        if bits & (1 << k) != 0 {
            let name = NAMES[k];
            let vlen = if k == 2 { 1 } else { dn };
            assert!(rec[off] as usize == name.len() && rec[off + 1] as usize == vlen, "pair length prefix wrong");
            off += 2;
            let mut i = 0;
            while i < name.len() { assert!(rec[off + i] == name[i], "variable name wrong"); i += 1; }
            off += name.len();
            if k == 2 { assert!(rec[off] == b'0', "FCGI_MPXS_CONNS must be 0"); }
            else { let mut i = 0; while i < dn { assert!(rec[off + i] == dec[i], "connection limit value wrong"); i += 1; } }
            off += vlen;
        }
        k += 1;
    }
    assert_eq!(off, 8 + clen, "content length differs from the pairs written");
    let mut i = 0;
    while i < pad { assert!(rec[off + i] == 0, "padding not zero"); i += 1; }
    assert!(rec.len() <= ProtocolVariables::RESPONSE_LEN, "reply longer than RESPONSE_LEN");
    rec.len()
}

fn write_response_case<V: crate::ext::BytesVec>(mut out: V, pre: usize, lo: usize, hi: usize) {
    let bits: u8 = kani::any();
    kani::assume(bits < 8);
    let mc: usize = kani::any();
    kani::assume(lo <= mc && mc <= hi);
    let cfg = Config { buffer_size: 8192, max_conns: NonZeroUsize::new(mc).unwrap() };
    let vars = ProtocolVariables::from_bits_truncate(bits);
    let n = vars.write_response(&mut out, &cfg);
    assert_eq!(out.len(), pre + n, "reported count differs from bytes appended");
    let mut i = 0;
    while i < pre { assert!(out[i] == 0xC0 + i as u8, "existing buffer contents modified"); i += 1; }
    let m = check_values_result(&out[pre..], bits, mc);
    assert_eq!(m, n);
    kani::cover!(bits == 7, "all three variables");
    kani::cover!(bits == 0, "empty set -> empty record");
    kani::cover!(mc == hi, "upper end of the digit class");
    kani::cover!(mc == lo, "lower end of the digit class");
}

fn prefilled_vec(pre: usize) -> Vec<u8> {
    let mut v = Vec::with_capacity(128);
    let mut i = 0; while i < pre { v.push(0xC0 + i as u8); i += 1; }
    v
}

// @harness name=c17_write_response_vec_1digit props=C17,C04 tier=thorough timeout=3000 mem=20
// @bound all 8 variable subsets x max_conns 1..=9 x pre-filled Vec of symbolic length 0..3
// @functions ProtocolVariables::write_response<Vec<u8>>, nv::write, RecordHeader::set_lengths
#[kani::proof]
#[kani::unwind(22)]
#[kani::stub(compact_str::repr::ensure_read, crate::verif_kani::ensure_read_id)]
fn c17_write_response_vec_1digit() {
    let pre: usize = kani::any();
    kani::assume(pre <= 3);
    let v = prefilled_vec(pre);
    write_response_case(v, pre, 1, 9);
}
