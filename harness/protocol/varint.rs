// Harnesses for src/protocol/varint.rs (C15).
use super::*;
use std::io;

fn spec_len(v: u32) -> usize { if v < 128 { 1 } else { 4 } }

// @harness name=c15_try_from_u32 props=C15 tier=quick timeout=120
// @bound all 2^32 u32 values and all usize values; no loops
#[kani::proof]
fn c15_try_from_u32() {
    let v: u32 = kani::any();
    let r = VarInt::try_from(v);
    assert_eq!(r.is_ok(), v <= 0x7fff_ffff);
    if let Ok(x) = r {
        assert_eq!(u32::from(x), v);
        assert_eq!(usize::try_from(x).ok(), Some(v as usize));
        kani::cover!(v == 0x7fff_ffff, "max value accepted");
    } else {
        assert!(matches!(r, Err(ProtocolError::InvalidVarInt)));
        kani::cover!(v == 0x8000_0000, "first rejected value");
    }
    let u: usize = kani::any();
    let r = VarInt::try_from(u);
    assert_eq!(r.is_ok(), u <= 0x7fff_ffff);
    if let Ok(x) = r { assert_eq!(u32::from(x) as usize, u); }
    else { assert!(matches!(r, Err(ProtocolError::InvalidVarInt))); }
    kani::cover!(u > u32::MAX as usize, "usize beyond u32");
    let b: u8 = kani::any();
    assert_eq!(u32::from(VarInt::from(b)), b as u32);
    let h: u16 = kani::any();
    assert_eq!(u32::from(VarInt::from(h)), h as u32);
    assert_eq!(u32::from(VarInt::MAX), 0x7fff_ffff);
}

// @harness name=c15_write_read_roundtrip props=C15 tier=quick timeout=300
// @bound all values 0..2^31-1; writer = &mut [u8] of symbolic capacity 0..6; reader = &[u8]
#[kani::proof]
fn c15_write_read_roundtrip() {
    let v: u32 = kani::any();
    kani::assume(v <= 0x7fff_ffff);
    let vi = VarInt::try_from(v).unwrap();
    let mut out = [0xAAu8; 6];
    let cap: usize = kani::any();
    kani::assume(cap <= 6);
    let res = {
        let mut w: &mut [u8] = &mut out[..cap];
        let r = vi.write(&mut w);
        let left = w.len();
        r.map(|n| (n, left))
    };
    let need = spec_len(v);
    match res {
        Ok((n, left)) => {
            assert!(cap >= need, "write succeeded without enough space");
            assert_eq!(n, need, "reported length differs from the spec length");
            assert_eq!(cap - left, need, "bytes actually written differ from the reported count");
            if need == 1 {
                assert_eq!(out[0], v as u8);
                assert!(out[0] & 0x80 == 0);
            } else {
                let be = v.to_be_bytes();
                assert_eq!(out[0], be[0] | 0x80);
                assert_eq!(out[1], be[1]);
                assert_eq!(out[2], be[2]);
                assert_eq!(out[3], be[3]);
            }
            // bytes after the encoding untouched
            if need == 1 { assert!(out[1] == 0xAA && out[2] == 0xAA && out[3] == 0xAA); }
            assert!(out[4] == 0xAA && out[5] == 0xAA);
            // decode
            let mut r: &[u8] = &out[..];
            let back = VarInt::read(&mut r);
            match back {
                Ok(b) => {
                    assert_eq!(u32::from(b), v, "decode(encode(v)) != v");
                    assert_eq!(6 - r.len(), need, "decoder consumed a different number of bytes");
                }
                Err(e) => { std::mem::forget(e); panic!("decode of a complete encoding failed"); }
            }
            kani::cover!(v == 127, "largest short form");
            kani::cover!(v == 128, "smallest long form");
            kani::cover!(v == 0x7fff_ffff, "max");
        }
        Err(e) => {
            assert!(cap < need, "write failed although space sufficed");
            std::mem::forget(e);
            kani::cover!(cap == 3 && v >= 128, "long form into 3 bytes fails");
        }
    }
}

// @harness name=c15_write_vec props=C15 tier=quick timeout=300
// @bound all values 0..2^31-1; writer = Vec<u8> with 0..2 pre-existing bytes
#[kani::proof]
#[kani::unwind(6)]
fn c15_write_vec() {
    let v: u32 = kani::any();
    kani::assume(v <= 0x7fff_ffff);
    let vi = VarInt::try_from(v).unwrap();
    let pre: usize = kani::any();
    kani::assume(pre <= 2);
    let mut out: Vec<u8> = Vec::with_capacity(8);
    let mut i = 0; while i < pre { out.push(0x55); i += 1; }
    let n = match vi.write(&mut out) { Ok(n) => n, Err(e) => { std::mem::forget(e); panic!("Vec write failed") } };
    assert_eq!(n, spec_len(v));
    assert_eq!(out.len(), pre + n);
    if n == 1 { assert_eq!(out[pre], v as u8); }
    else {
        let be = v.to_be_bytes();
        assert!(out[pre] == be[0] | 0x80 && out[pre+1] == be[1] && out[pre+2] == be[2] && out[pre+3] == be[3]);
    }
    kani::cover!(pre == 2 && n == 4, "append long form after existing bytes");
    std::mem::forget(out);
}

// @harness name=c15_read_arbitrary props=C15 tier=quick timeout=300
// @bound every 4-byte string, every truncation length 0..5 (5th byte to show trailing data is not consumed)
#[kani::proof]
fn c15_read_arbitrary() {
    let data: [u8; 5] = kani::any();
    let len: usize = kani::any();
    kani::assume(len <= 5);
    let mut r: &[u8] = &data[..len];
    let res = VarInt::read(&mut r);
    let announced = if len == 0 { 1 } else if data[0] & 0x80 == 0 { 1 } else { 4 };
    match res {
        Ok(x) => {
            assert!(len >= announced, "decoded although announced bytes are missing");
            assert_eq!(len - r.len(), announced, "consumed != announced length");
            let val = u32::from(x);
            if announced == 1 { assert_eq!(val, data[0] as u32); }
            else { assert_eq!(val, u32::from_be_bytes([data[0] & 0x7f, data[1], data[2], data[3]])); }
            assert!(val <= 0x7fff_ffff);
            kani::cover!(announced == 4 && val < 128, "non-minimal long form accepted");
            kani::cover!(announced == 4 && len == 5, "trailing byte left");
        }
        Err(e) => {
            assert!(len < announced, "failed although announced bytes are present");
            assert!(e.kind() == io::ErrorKind::UnexpectedEof, "wrong error kind on truncation");
            std::mem::forget(e);
            kani::cover!(len == 3 && announced == 4, "truncated inside long form");
            kani::cover!(len == 0, "empty input");
        }
    }
}
