// Harnesses for src/async_io/util.rs (C14: wait group; C10: RepeatableLockFuture).
use super::*;
use std::task::{RawWaker, RawWakerVTable, Waker};

// A counting waker whose `clone` callback can run a harness action: AtomicWaker::register clones the waker
// AFTER WaitGroupFuture::poll upgraded its Weak and BEFORE the registration is published - exactly the window
// in which "the other thread" may drop the last token.
static mut WAKES: usize = 0;
static mut CLONES: usize = 0;
static mut DROP_IN_CLONE: bool = false;
static mut PARKED: Option<TaskToken> = None;

unsafe fn vt_clone(p: *const ()) -> RawWaker {
    CLONES += 1;
    if DROP_IN_CLONE {
        let t = (*std::ptr::addr_of_mut!(PARKED)).take();
        drop(t);            // the last token goes away inside the registration window
    }
    RawWaker::new(p, &VT)
}
unsafe fn vt_wake(_p: *const ()) { WAKES += 1; }
unsafe fn vt_wake_by_ref(_p: *const ()) { WAKES += 1; }
unsafe fn vt_drop(_p: *const ()) {}
static VT: RawWakerVTable = RawWakerVTable::new(vt_clone, vt_wake, vt_wake_by_ref, vt_drop);
fn counting_waker() -> Waker { unsafe { Waker::from_raw(RawWaker::new(std::ptr::null(), &VT)) } }

// @harness name=c14_waitgroup props=C14 tier=quick timeout=1500
// @bound wait group with 0..2 tokens; each token is dropped at a symbolic point: before the first poll, INSIDE AtomicWaker::register (between Weak::upgrade and the publication of the waker), or after the poll; up to two polls. Sequential model of the interleavings (Kani has no threads)
// @functions WaitGroup::{new,add_task,tasks,into_future}, WaitGroupFuture::poll, Drop for WaitGroupInner, TaskToken (Arc) drop, AtomicWaker::{register,wake}
#[kani::proof]
#[kani::unwind(4)]
fn c14_waitgroup() {
    let wg = WaitGroup::new();
    let n: u8 = kani::any();
    kani::assume(n <= 2);
    let mut t1 = if n >= 1 { Some(wg.add_task()) } else { None };
    let mut t2 = if n >= 2 { Some(wg.add_task()) } else { None };
    assert!(wg.tasks() == n as usize, "task count differs from the number of live tokens");
    let mut fut = std::future::IntoFuture::into_future(wg);
    let waker = counting_waker();
    let mut cx = Context::from_waker(&waker);
    // when does each token go away?  0 = before the first poll, 1 = inside the registration window, 2 = after the poll, 3 = never
    let w1: u8 = kani::any();
    let w2: u8 = kani::any();
    kani::assume(w1 <= 3 && w2 <= 3);
    kani::assume(n >= 1 || w1 == 3);
    kani::assume(n >= 2 || w2 == 3);
    kani::assume(!(w1 == 1 && w2 == 1));     // one parked token per poll
    if w1 == 0 { drop(t1.take()); }
    if w2 == 0 { drop(t2.take()); }
    unsafe {
        if w1 == 1 { PARKED = t1.take(); DROP_IN_CLONE = true; }
        if w2 == 1 { PARKED = t2.take(); DROP_IN_CLONE = true; }
    }
    let alive_before = t1.is_some() || t2.is_some() || unsafe { (*std::ptr::addr_of!(PARKED)).is_some() };
    let r1 = Pin::new(&mut fut).poll(&mut cx);
    unsafe { DROP_IN_CLONE = false; }
    let alive_mid = t1.is_some() || t2.is_some();
    if r1.is_ready() {
        assert!(!alive_before, "C14: shutdown future completed although a token is still alive");
    } else {
        assert!(alive_before, "C14: shutdown future pending although every token was gone before the poll");
        if !alive_mid {
            // the last token was dropped inside the registration window: the task must have been woken
            assert!(unsafe { WAKES } >= 1, "C14: lost wake-up: last token dropped during waker registration, task never woken");
            kani::cover!(true, "last token dropped inside the registration window");
        }
    }
    let wakes_mid = unsafe { WAKES };
    if w1 == 2 { drop(t1.take()); }
    if w2 == 2 { drop(t2.take()); }
    let alive_end = t1.is_some() || t2.is_some();
    if r1.is_pending() && alive_mid && !alive_end {
        assert!(unsafe { WAKES } == wakes_mid + 1, "C14: dropping the last token after a pending poll must wake the task exactly once");
        kani::cover!(true, "last token dropped after the poll");
    }
    if r1.is_pending() && alive_end { assert!(unsafe { WAKES } == wakes_mid, "woken although tokens remain"); }
    let r2 = Pin::new(&mut fut).poll(&mut cx);
    assert!(r2.is_ready() == !alive_end, "C14: second poll: ready exactly when no token is alive");
    kani::cover!(n == 0 && r1.is_ready(), "no tokens at all");
    kani::cover!(n == 2 && r2.is_pending(), "still waiting for a token");
    std::mem::forget(t1); std::mem::forget(t2);
}

// @harness name=c10_lock_future props=C10,C99 tier=quick timeout=900 rmbody=nowaiters unwindset=drop_glue::<.slab::Entry<.*>.>$:2
// @bound one uncontended mutex: RepeatableLockFuture polled twice yields the guard both times (repeatable), the mutex stays locked while the future lives and is free after it is dropped
// @functions RepeatableLockFuture::{new,poll}, futures_util::lock::Mutex::lock_owned
#[kani::proof]
#[kani::unwind(4)]
fn c10_lock_future() {
    let m = Arc::new(Mutex::new(7u32));
    let waker = counting_waker();
    let mut cx = Context::from_waker(&waker);
    {
        let mut f = RepeatableLockFuture::new(m.clone());
        match Pin::new(&mut f).poll(&mut cx) { Poll::Ready(v) => { assert!(*v == 7); *v = 8; } Poll::Pending => panic!("uncontended lock must be granted at once") }
        assert!(m.try_lock().is_none(), "C10: mutex not held while the lock future is alive");
        match Pin::new(&mut f).poll(&mut cx) { Poll::Ready(v) => assert!(*v == 8, "repeated poll must yield the same guard"), Poll::Pending => panic!("repeated poll must stay ready") }
    }
    match m.try_lock() { Some(g) => { assert!(*g == 8); std::mem::forget(g); } None => panic!("C10: mutex still locked after the lock future was dropped") }
    kani::cover!(true, "lock taken and released");
    std::mem::forget(m);
}
