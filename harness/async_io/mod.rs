// Harnesses for src/async_io/mod.rs (C08, C09, C10, C12, parts of C07/C11).
// @requires parser/stream.rs
// @requires parser/request.rs
// @requires protocol/body.rs
// The transport is a nondeterministic stub (DESIGN.md E7): every poll_read / poll_write(_vectored) call returns
// Pending, Ready(Ok(k)) for a symbolic 1 <= k <= len, Ok(0), or an error, within a stated call budget.
use super::*;
use std::future::Future;
use crate::verif_kani::fixed_random_state;
use crate::parser::stream::verif_kani as sv;

pub(crate) const RN: usize = 16;   // bytes the mock reader can deliver
pub(crate) const WL: usize = 64;   // bytes the mock writer can log

pub(crate) struct MockR {
    pub data: [u8; RN], pub len: usize, pub pos: usize,
    pub calls: usize,
    pub pend_budget: usize,        // how many Pending answers may still be given
    pub fail: u8,                  // 0 = never, 1 = error when exhausted instead of EOF
    pub last_pending: bool,
}
impl MockR {
    pub(crate) fn new(data: [u8; RN], len: usize, pend_budget: usize) -> Self {
        MockR { data, len, pos: 0, calls: 0, pend_budget, fail: 0, last_pending: false }
    }
}
impl AsyncRead for MockR {
    fn poll_read(self: Pin<&mut Self>, _cx: &mut Context<'_>, buf: &mut [u8]) -> Poll<io::Result<usize>> {
        let this = self.get_mut();
        this.calls += 1;
        this.last_pending = false;
        if this.pend_budget > 0 && kani::any() {
            this.pend_budget -= 1;
            this.last_pending = true;
            return Poll::Pending;
        }
        let avail = this.len - this.pos;
        if avail == 0 || buf.is_empty() {
            if this.fail == 1 { return Poll::Ready(Err(io::ErrorKind::BrokenPipe.into())); }
            return Poll::Ready(Ok(0));
        }
        let k: usize = kani::any();
        kani::assume(1 <= k && k <= avail && k <= buf.len());
        let mut i = 0;
        while i < k { buf[i] = this.data[this.pos + i]; i += 1; }
        this.pos += k;
        Poll::Ready(Ok(k))
    }
}

pub(crate) struct MockW {
    pub log: [u8; WL], pub len: usize,
    pub calls: usize, pub flushes: usize,
    pub pend_budget: usize,
    pub partial_budget: usize,     // how many short writes may still happen (afterwards everything offered is accepted)
    pub fail_at: usize,            // call index (1-based) that fails; 0 = never
    pub fail_zero: bool,           // failing call returns Ok(0) instead of Err
    pub failed: bool,
    pub writes_after_fail: usize,
}
impl MockW {
    pub(crate) fn new(pend_budget: usize, partial_budget: usize) -> Self {
        MockW { log: [0; WL], len: 0, calls: 0, flushes: 0, pend_budget, partial_budget, fail_at: 0, fail_zero: false, failed: false, writes_after_fail: 0 }
    }
    fn decide(&mut self, total: usize) -> Poll<io::Result<usize>> {
        self.calls += 1;
        if self.failed { self.writes_after_fail += 1; }
        if self.fail_at != 0 && self.calls == self.fail_at {
            self.failed = true;
            return if self.fail_zero { Poll::Ready(Ok(0)) } else { Poll::Ready(Err(io::ErrorKind::BrokenPipe.into())) };
        }
        if self.pend_budget > 0 && kani::any() { self.pend_budget -= 1; return Poll::Pending; }
        if total == 0 { return Poll::Ready(Ok(0)); }
        let mut k = total;
        if self.partial_budget > 0 {
            let c: usize = kani::any();
            kani::assume(1 <= c && c <= total);
            if c < total { self.partial_budget -= 1; }
            k = c;
        }
        Poll::Ready(Ok(k))
    }
    fn push(&mut self, b: u8) { assert!(self.len < WL, "harness bound: mock writer log full"); self.log[self.len] = b; self.len += 1; }
}
impl AsyncWrite for MockW {
    fn poll_write(self: Pin<&mut Self>, _cx: &mut Context<'_>, buf: &[u8]) -> Poll<io::Result<usize>> {
        let this = self.get_mut();
        match this.decide(buf.len()) {
            Poll::Ready(Ok(k)) => { let mut i = 0; while i < k { this.push(buf[i]); i += 1; } Poll::Ready(Ok(k)) }
            other => other,
        }
    }
    fn poll_write_vectored(self: Pin<&mut Self>, _cx: &mut Context<'_>, bufs: &[IoSlice<'_>]) -> Poll<io::Result<usize>> {
        let this = self.get_mut();
        let mut total = 0; let mut j = 0;
        while j < bufs.len() { total += bufs[j].len(); j += 1; }
        match this.decide(total) {
            Poll::Ready(Ok(k)) => {
                let mut left = k; let mut j = 0;
                while j < bufs.len() && left > 0 {
                    let b: &[u8] = &bufs[j];
                    let mut i = 0;
                    while i < b.len() && left > 0 { this.push(b[i]); i += 1; left -= 1; }
                    j += 1;
                }
                Poll::Ready(Ok(k))
            }
            other => other,
        }
    }
    fn poll_flush(self: Pin<&mut Self>, _cx: &mut Context<'_>) -> Poll<io::Result<()>> { self.get_mut().flushes += 1; Poll::Ready(Ok(())) }
    fn poll_close(self: Pin<&mut Self>, _cx: &mut Context<'_>) -> Poll<io::Result<()>> { Poll::Ready(Ok(())) }
}

pub(crate) fn noop_cx() -> Context<'static> { Context::from_waker(futures_util::task::noop_waker_ref()) }

/// A GetValues management record (id 0) with the 3-byte body [1, 0, name] and 5 padding bytes: 16 bytes.
pub(crate) fn getvalues_record(name: u8) -> [u8; 16] { [1, 9, 0, 0, 0, 3, 5, 0, 1, 0, name, 0, 0, 0, 0, 0] }

pub(crate) fn mk_request<'a>(cfg: &'a Config, raw: [u8; sv::B], raw_len: usize, role: fcgi::Role, id: u16, stream: Option<fcgi::RecordType>,
                  st: u8, payload: u16, padding: u8, r: MockR, w: MockW, writeable: bool) -> Request<'a, MockR, MockW> {
    let parser = sv::mk_code(cfg, raw, (0, 0, 0, raw_len), st, role, id, stream, payload, padding, Vec::with_capacity(32), 0);
    Request { parser, input: r, output: Arc::new(Mutex::new(w)), lock: None, writeable }
}

// ------------------------------------------------------------------------------------------------ C08: poll_input

/// Reply-owing record used by the C08 harnesses: an (empty) record of unknown type `ty` for request id `id`.
pub(crate) fn unknown_record(ty: u8, id: u16) -> [u8; 8] { [1, ty, (id >> 8) as u8, id as u8, 0, 0, 0, 0] }

pub(crate) fn owes_reply_case(raw: [u8; sv::B], raw_len: usize, reply_len: usize) {
    let cfg = sv::cfg1();
    let r = MockR::new([0; RN], 0, 1);
    let w = MockW::new(1, 2);
    let mut req = mk_request(&cfg, raw, raw_len, fcgi::Role::Responder, 1, Some(fcgi::RecordType::Stdin), 1, 0, 0, r, w, true);
    let mut cx = noop_cx();
    let mut dest = [0u8; 4];
    let res = Pin::new(&mut req).poll_read(&mut cx, &mut dest);
    match &res {
        Poll::Pending => {
            if req.input.last_pending {
                // the task is suspended waiting for client input
                assert!(req.parser.output_buffer().is_empty(), "C08:reply-owed-at-read-pending: poll_input waits for client input while a reply is still in the parser's output buffer");
                let g = req.output.try_lock().expect("lock must be free");
                assert!(g.len == reply_len, "C08:reply-not-on-transport-at-read-pending");
                kani::cover!(true, "suspended on the reader with the reply flushed");
                std::mem::forget(g);
            } else {
                kani::cover!(true, "suspended on the writer while flushing the reply");
            }
        }
        Poll::Ready(Ok(_)) => panic!("reader had no data: a successful read is impossible"),
        Poll::Ready(Err(_)) => { kani::cover!(true, "reader reported EOF -> UnexpectedEof"); }
    }
    std::mem::forget(res);
    std::mem::forget(req);
}

// @harness name=c08_poll_input_owes_reply props=C08,C09 tier=manual timeout=1500 rmbody=ioerr,nogrow,nonv,nowaiters mem=20 unwindset=stream::Parser::<'_>::parse$:3;Request::<'_,.*>::poll_input$:3;Request::<'_,.*>::poll_output$:5;slab::IterMut<.*>.as.std::iter::Iterator>::next$:2;drop_glue::<.slab::Entry<.*>.>$:2
// @bound Responder request at a record boundary, active stream Stdin; the raw region holds ONE complete record of unknown type (type 12, id symbolic) that was read earlier; the peer sends nothing more until it sees the reply: reader answers Pending (or EOF); writer accepts any split (<= 2 short writes) or Pending (<= 1). One poll of Request::poll_read.
// @functions Request::poll_input, Request::poll_output, stream::Parser::parse, RepeatableLockFuture::poll
#[kani::proof]
#[kani::unwind(18)]
#[kani::stub(std::hash::RandomState::new, fixed_random_state)]
#[kani::stub(fcgi::ProtocolVariables::parse_name, crate::verif_kani::parse_name_model)]
#[kani::stub(fcgi::ProtocolVariables::write_response, crate::verif_kani::write_response_model)]
pub(crate) fn c08_poll_input_owes_reply() {
    let mut raw = [0u8; sv::B];
    // the type byte is concrete (symex does not prune on assumptions: a symbolic type makes CBMC explore every
    // header arm incl. GetValues bodies); the request id is symbolic
    let rec = unknown_record(12, kani::any());
    let mut i = 0; while i < 8 { raw[i] = rec[i]; i += 1; }
    owes_reply_case(raw, 8, 16);
}

// @harness name=c08_poll_input_owes_getvalues props=C08 tier=manual timeout=7000 rmbody=ioerr,nogrow,nowaiters mem=24 unwindset=stream::Parser::<'_>::parse$:4;Request::<'_,.*>::poll_input$:3;Request::<'_,.*>::poll_output$:5;slab::IterMut<.*>.as.std::iter::Iterator>::next$:2;drop_glue::<.slab::Entry<.*>.>$:2
// @bound as c08_poll_input_owes_reply, the buffered record being a GetValues query (3-byte body, symbolic name byte, 5 bytes padding); parse_name / write_response = E5 models
// @functions Request::poll_input, Request::poll_output, stream::Parser::parse
#[kani::proof]
#[kani::unwind(18)]
#[kani::stub(std::hash::RandomState::new, fixed_random_state)]
#[kani::stub(fcgi::ProtocolVariables::parse_name, crate::verif_kani::parse_name_model)]
#[kani::stub(fcgi::ProtocolVariables::write_response, crate::verif_kani::write_response_model)]
pub(crate) fn c08_poll_input_owes_getvalues() {
    let mut raw = [0u8; sv::B];
    let rec = getvalues_record(kani::any());
    let mut i = 0; while i < 16 { raw[i] = rec[i]; i += 1; }
    owes_reply_case(raw, 16, crate::verif_kani::WR_MODEL_LEN);
}

// ------------------------------------------------------------------------------------------------ C10: StreamWriter

/// Checking transport for the writer harnesses: knows the ONE record that must appear on the wire and checks every
/// vectored write against it on the fly (offered bytes == exactly the not-yet-sent rest of the record); accepts a
/// symbolic number of bytes.  No byte log (symbolic-index array WRITES are what makes CBMC run out of memory).
pub(crate) struct ExpectW { pub exp: [u8; 40], pub exp_len: usize, pub pos: usize, pub calls: usize, pub pend_budget: usize, pub partial_budget: usize, pub fail_at: usize, pub fail_zero: bool }
impl AsyncWrite for ExpectW {
    fn poll_write(self: Pin<&mut Self>, cx: &mut Context<'_>, buf: &[u8]) -> Poll<io::Result<usize>> {
        let bufs = [IoSlice::new(buf)];
        self.poll_write_vectored(cx, &bufs)
    }
    fn poll_write_vectored(self: Pin<&mut Self>, _cx: &mut Context<'_>, bufs: &[IoSlice<'_>]) -> Poll<io::Result<usize>> {
        let this = self.get_mut();
        this.calls += 1;
        let mut total = 0;
        let mut j = 0;
        while j < bufs.len() {
            let b: &[u8] = &bufs[j];
            assert!(this.pos + total + b.len() <= this.exp_len, "C10: more bytes offered than the record has left (stray bytes on the wire)");
            // every offered byte is checked: `i` is an arbitrary index chosen by the solver (no loop)
            let i: usize = kani::any();
            if i < b.len() {
                assert!(b[i] == this.exp[this.pos + total + i], "C10: byte offered to the transport differs from the expected byte sequence (header / payload / zero padding) at this position");
            }
            total += b.len();
            j += 1;
        }
        assert!(total == this.exp_len - this.pos, "C10: a vectored write must offer exactly the rest of the record");
        if unsafe { GW_FAILED } { unsafe { GW_AFTER_FAIL += 1; } }
        if this.fail_at != 0 && this.calls == this.fail_at {
            unsafe { GW_FAILED = true; }
            return if this.fail_zero { Poll::Ready(Ok(0)) } else { Poll::Ready(Err(io::ErrorKind::BrokenPipe.into())) };
        }
        if this.pend_budget > 0 && kani::any() { this.pend_budget -= 1; return Poll::Pending; }
        let mut k = total;
        if this.partial_budget > 0 && total > 1 {
            let c: usize = kani::any();
            kani::assume(1 <= c && c <= total);
            if c < total { this.partial_budget -= 1; }
            k = c;
        }
        this.pos += k;
        Poll::Ready(Ok(k))
    }
    fn poll_flush(self: Pin<&mut Self>, _cx: &mut Context<'_>) -> Poll<io::Result<()>> { Poll::Ready(Ok(())) }
    fn poll_close(self: Pin<&mut Self>, _cx: &mut Context<'_>) -> Poll<io::Result<()>> { Poll::Ready(Ok(())) }
}

pub(crate) fn writer_case<const N: usize>() { writer_case_f::<N>(false) }

pub(crate) fn writer_case_f<const N: usize>(wfault: bool) {
    unsafe { GW_FAILED = false; GW_AFTER_FAIL = 0; }
    // write-side fault injection (C12): one of the first three write calls fails with an error or a zero-length write
    let fail_at: usize = if wfault { let x: usize = kani::any(); kani::assume(1 <= x && x <= 3); x } else { 0 };
    let fail_zero: bool = wfault && kani::any();
    let payload: [u8; N] = kani::any();
    // the caller may come back after a Pending with a LONGER buffer (it appended data): the record in progress must
    // still carry exactly the bytes and the length announced in its header
    let mut big = [0u8; 16];
    let mut i = 0; while i < N { big[i] = payload[i]; i += 1; }
    big[N] = kani::any(); big[N + 1] = kani::any();
    let grow: usize = if kani::any() { 2 } else { 0 };
    let id: u16 = kani::any();
    kani::assume(id != 0);
    let stream = if kani::any() { fcgi::RecordType::Stdout } else { fcgi::RecordType::Stderr };
    let pad = (8 - N % 8) % 8;
    let mut exp = [0u8; 40];
    exp[0] = 1; exp[1] = u8::from(stream); exp[2] = (id >> 8) as u8; exp[3] = id as u8; exp[4] = (N >> 8) as u8; exp[5] = N as u8; exp[6] = pad as u8;
    let mut i = 0; while i < N { exp[8 + i] = payload[i]; i += 1; }
    let arc = Arc::new(Mutex::new(ExpectW { exp, exp_len: 8 + N + pad, pos: 0, calls: 0, pend_budget: 1, partial_budget: 3, fail_at, fail_zero }));
    let mut sw = StreamWriter { writer: arc.clone(), lock: None, head: fcgi::RecordHeader::new(stream, id), head_idx: 0, orig_len: 0 };
    let mut cx = noop_cx();
    let mut pendings = 0;
    let res = loop {
        let offered: &[u8] = if pendings == 0 { &payload } else { &big[..N + grow] };
        match Pin::new(&mut sw).poll_write(&mut cx, offered) {
            Poll::Ready(r) => break r,
            Poll::Pending => {
                pendings += 1;
                assert!(pendings <= 1, "transport gives at most one Pending");
                assert!(!unsafe { GW_FAILED }, "C12: a failed or zero-length write leaves the write pending instead of ending it with an error");
                assert!(arc.try_lock().is_none(), "C10: output lock released while a record is in progress (another writer could interleave)");
                kani::cover!(true, "suspended in the middle of a record");
            }
        }
    };
    let n = match res {
        Ok(n) => { assert!(!unsafe { GW_FAILED }, "C12: a failed or zero-length write was swallowed (the write reports success)"); n }
        Err(e) => {
            let k = e.kind(); std::mem::forget(e);
            assert!(unsafe { GW_FAILED }, "write failed although the transport never failed");
            assert!(k == if fail_zero { io::ErrorKind::WriteZero } else { io::ErrorKind::BrokenPipe }, "C12: a write failure must surface as the transport's error, a zero-length write as WriteZero");
            assert!(unsafe { GW_AFTER_FAIL } == 0, "C12: something was written after a failed write");
            // everything offered before the failure was checked against the record by the transport (prefix of a well-formed record)
            kani::cover!(fail_zero && fail_at == 2, "zero-length write in the middle of a record");
            kani::cover!(!fail_zero && fail_at == 3, "error on the third write");
            std::mem::forget(sw);
            return;
        }
    };
    assert!(n == N, "C10: a successful write must report exactly the payload length announced in the record header (also when the caller came back with a longer buffer)");
    kani::cover!(pendings == 1 && grow == 2, "record completed after the caller came back with a longer buffer");
    assert!(sw.lock.is_none() && sw.head.content_length == 0 && sw.head.padding_length == 0, "writer not reset after a complete record");
    let g = arc.try_lock().expect("C10: output lock still held after a complete record");
    assert!(g.pos == g.exp_len, "C10: the record was not sent completely (header + payload + padding)");
    kani::cover!(g.calls >= 3, "record sent with at least two short writes");
    kani::cover!(g.calls == 1, "record accepted in one write");
    std::mem::forget(g);
    std::mem::forget(sw);
}

macro_rules! writer_harness {
    ($name:ident, $n:expr) => {
        #[kani::proof]
        #[kani::unwind(10)]
        fn $name() { writer_case::<$n>(); }
    };
}

// @harness name=c10_writer_3 props=C10,C07 tier=quick timeout=2400 rmbody=ioerr,nogrow,nowaiters mem=20 unwindset=StreamWriter<.*>.as.futures_util::AsyncWrite>::poll_write$:6;drop_glue::<.slab::Entry<.*>.>$:2 dead=2
// @bound one StreamWriter (Stdout|Stderr, any id), payload of 3 symbolic bytes (5 padding bytes); the transport checks every vectored write against the expected record and accepts any 1..n bytes with <= 3 short writes (cuts inside the header, at the seams, inside the padding) and <= 1 Pending; polled to completion; after a Pending the caller may offer a buffer that is 2 bytes longer
// @functions StreamWriter::poll_write, RepeatableLockFuture::poll, RecordHeader::{set_lengths,to_bytes,padding_bytes}
writer_harness!(c10_writer_3, 3);

// @harness name=c12_writer_fault_3 props=C12,C10 tier=quick timeout=2400 rmbody=ioerr,nogrow,nowaiters mem=20 unwindset=StreamWriter<.*>.as.futures_util::AsyncWrite>::poll_write$:6;drop_glue::<.slab::Entry<.*>.>$:2 dead=1
// @bound as c10_writer_3, with a write-side fault: the 1st, 2nd or 3rd vectored write returns an error or a zero-length write; poll_write must end with that error resp. WriteZero, nothing is offered to the transport afterwards, and everything offered before was a prefix of the one expected record (checked by the transport)
// @functions StreamWriter::poll_write (error / WriteZero paths)
#[kani::proof]
#[kani::unwind(10)]
pub(crate) fn c12_writer_fault_3() { writer_case_f::<3>(true); }

// @harness name=c10_writer_8 props=C10 tier=quick timeout=2400 rmbody=ioerr,nogrow,nowaiters mem=20 unwindset=StreamWriter<.*>.as.futures_util::AsyncWrite>::poll_write$:6;drop_glue::<.slab::Entry<.*>.>$:2 dead=2
// @bound as c10_writer_3 with a payload of 8 symbolic bytes (no padding)
// @functions StreamWriter::poll_write
writer_harness!(c10_writer_8, 8);

// @harness name=c10_writer_9 props=C10 tier=thorough timeout=6000 rmbody=ioerr,nogrow,nowaiters mem=24 unwindset=StreamWriter<.*>.as.futures_util::AsyncWrite>::poll_write$:6;drop_glue::<.slab::Entry<.*>.>$:2 dead=2
// @bound as c10_writer_3 with a payload of 9 symbolic bytes (7 padding bytes)
// @functions StreamWriter::poll_write
writer_harness!(c10_writer_9, 9);

// ------------------------------------------------------------------------------------------------ C09 / C12: async reads

/// Stdin record with 3 payload bytes and 5 padding bytes (16 bytes), then the empty Stdin terminator (8 bytes).
pub(crate) fn stdin_trace(id: u16, pl: [u8; 3]) -> [u8; sv::B] {
    let (h, l) = ((id >> 8) as u8, id as u8);
    [1, 5, h, l, 0, 3, 5, 0, pl[0], pl[1], pl[2], 0, 0, 0, 0, 0, 1, 5, h, l, 0, 0, 0, 0]
}

// @harness name=c09_read_buffered_trace props=C09,C02 tier=manual timeout=1800 rmbody=ioerr,nogrow,nonv,nowaiters mem=20 unwindset=stream::Parser::<'_>::parse$:4;Request::<'_,.*>::poll_input$:3;Request::<'_,.*>::poll_output$:5;slab::IterMut<.*>.as.std::iter::Iterator>::next$:2;drop_glue::<.slab::Entry<.*>.>$:2
// @bound Responder, Stdin active; the 24-byte buffer already holds [Stdin(3 symbolic bytes, pad 5) | Stdin terminator]; three consecutive poll_read calls with caller buffers of symbolic length 0..4, 4, 4; the transport is never needed
// @functions Request::poll_read, Request::poll_input, stream::Parser::parse, consume_stream
#[kani::proof]
#[kani::unwind(18)]
#[kani::stub(std::hash::RandomState::new, fixed_random_state)]
#[kani::stub(fcgi::ProtocolVariables::parse_name, crate::verif_kani::parse_name_model)]
#[kani::stub(fcgi::ProtocolVariables::write_response, crate::verif_kani::write_response_model)]
pub(crate) fn c09_read_buffered_trace() {
    let cfg = sv::cfg1();
    let pl: [u8; 3] = kani::any();
    let raw = stdin_trace(1, pl);
    let mut req = mk_request(&cfg, raw, 24, fcgi::Role::Responder, 1, Some(fcgi::RecordType::Stdin), 1, 0, 0, MockR::new([0; RN], 0, 0), MockW::new(0, 0), true);
    let mut cx = noop_cx();
    let d1: usize = kani::any();
    kani::assume(d1 <= 4);
    let mut b1 = [0xEEu8; 4];
    let n1 = match Pin::new(&mut req).poll_read(&mut cx, &mut b1[..d1]) { Poll::Ready(Ok(n)) => n, _ => panic!("buffered data must be served without touching the transport") };
    let want1 = if d1 < 3 { d1 } else { 3 };
    assert!(n1 == want1, "first read must return min(buffer length, stream bytes available)");
    let mut i = 0; while i < n1 { assert!(b1[i] == pl[i], "bytes read differ from the stream"); i += 1; }
    let mut b2 = [0xEEu8; 4];
    let n2 = match Pin::new(&mut req).poll_read(&mut cx, &mut b2) { Poll::Ready(Ok(n)) => n, _ => panic!("second read failed") };
    assert!(n2 == 3 - n1, "second read must return exactly the rest of the stream, each byte once");
    let mut i = 0; while i < n2 { assert!(b2[i] == pl[n1 + i], "bytes read differ from the stream"); i += 1; }
    let mut b3 = [0xEEu8; 4];
    let n3 = match Pin::new(&mut req).poll_read(&mut cx, &mut b3) { Poll::Ready(Ok(n)) => n, _ => panic!("read at end of stream failed") };
    // n2 == 0 happens when n1 == 3 and the terminator was reached by the second read already
    assert!(n3 == 0, "end of stream must be reported as a 0-byte read and must persist");
    assert!(req.input.calls == 0, "the transport was polled although everything needed was buffered");
    kani::cover!(d1 == 0, "zero-length caller buffer");
    kani::cover!(d1 == 2, "caller buffer smaller than the record");
    kani::cover!(d1 == 4, "caller buffer larger than the record");
    std::mem::forget(req);
}

// @harness name=c12_read_eof_midstream props=C12,C09 tier=manual timeout=1800 rmbody=ioerr,nogrow,nonv,nowaiters mem=20 unwindset=stream::Parser::<'_>::parse$:4;Request::<'_,.*>::poll_input$:3;Request::<'_,.*>::poll_output$:5;slab::IterMut<.*>.as.std::iter::Iterator>::next$:2;drop_glue::<.slab::Entry<.*>.>$:2
// @bound Responder, Stdin active, buffer holds a Stdin header announcing 3 bytes plus 0..2 of them (symbolic); the transport then reports EOF (or an error) after <= 1 Pending: the handler's read must fail (UnexpectedEof / the transport's error), never succeed with 0 bytes
// @functions Request::poll_read, Request::poll_input
#[kani::proof]
#[kani::unwind(18)]
#[kani::stub(std::hash::RandomState::new, fixed_random_state)]
#[kani::stub(fcgi::ProtocolVariables::parse_name, crate::verif_kani::parse_name_model)]
#[kani::stub(fcgi::ProtocolVariables::write_response, crate::verif_kani::write_response_model)]
pub(crate) fn c12_read_eof_midstream() {
    let cfg = sv::cfg1();
    let pl: [u8; 3] = kani::any();
    let raw = stdin_trace(1, pl);
    let have: usize = kani::any();
    kani::assume(have <= 2);
    let mut r = MockR::new([0; RN], 0, 1);
    r.fail = if kani::any() { 1 } else { 0 };
    let fail = r.fail;
    let mut req = mk_request(&cfg, raw, 8 + have, fcgi::Role::Responder, 1, Some(fcgi::RecordType::Stdin), 1, 0, 0, r, MockW::new(0, 0), true);
    let mut cx = noop_cx();
    let mut got = 0usize;
    let mut polls = 0;
    let mut b = [0xEEu8; 4];
    let err_kind = loop {
        polls += 1;
        assert!(polls <= 4, "poll_read must terminate: no spinning at EOF");
        match Pin::new(&mut req).poll_read(&mut cx, &mut b[got..]) {
            Poll::Pending => { assert!(req.input.last_pending); }
            Poll::Ready(Ok(n)) => {
                assert!(n > 0, "C12: a read that can never be satisfied returned Ok(0) (looks like a clean end of stream)");
                let mut i = 0; while i < n { assert!(b[got + i] == pl[got + i], "bytes read before the fault are not a prefix of the stream"); i += 1; }
                got += n;
                assert!(got <= have, "more bytes delivered than arrived");
            }
            Poll::Ready(Err(e)) => { let k = e.kind(); std::mem::forget(e); break k; }
        }
    };
    if fail == 1 { assert!(err_kind == io::ErrorKind::BrokenPipe, "the transport's error must be passed on"); }
    else { assert!(err_kind == io::ErrorKind::UnexpectedEof, "EOF inside a stream must surface as UnexpectedEof"); }
    kani::cover!(got == 2, "two bytes delivered, then the fault");
    kani::cover!(got == 0 && have == 0, "fault right after the record header");
    std::mem::forget(req);
}

// ------------------------------------------------------------------------------------------------ C13: connection tokens (sequential histories only)

// @harness name=c13_tokens_limit1 props=C13 tier=manual timeout=1800 mem=20
// @bound connection limit 1, runner + one clone; sequential history: acquire (must be immediate), second acquire on the clone (must wait), drop the pending request OR keep it (symbolic), drop the first token, acquire again. No thread interleavings (Kani executes atomics sequentially)
// @functions Runner::get_token, Runner::clone, Config::async_runner, Token drop (SemaphoreGuardArc), async_lock::Semaphore::acquire_arc
#[kani::proof]
#[kani::unwind(6)]
#[kani::stub(event_listener::notify::full_fence, crate::verif_kani::full_fence_noop)]
pub(crate) fn c13_tokens_limit1() {
    let cfg = Config { buffer_size: 24, max_conns: std::num::NonZeroUsize::new(1).unwrap() };
    let runner = cfg.async_runner();
    let clone = runner.clone();
    let mut cx = noop_cx();
    let t1 = {
        let f = runner.get_token();
        futures_util::pin_mut!(f);
        match f.poll(&mut cx) { Poll::Ready(t) => t, Poll::Pending => panic!("C13: a free slot was not handed out immediately") }
    };
    {
        let f2 = clone.get_token();
        futures_util::pin_mut!(f2);
        assert!(f2.as_mut().poll(&mut cx).is_pending(), "C13: second token handed out beyond the connection limit");
        if kani::any() {
            drop(t1);
            match f2.as_mut().poll(&mut cx) { Poll::Ready(t) => std::mem::forget(t), Poll::Pending => panic!("C13: freed slot not handed to the waiting request") }
            kani::cover!(true, "waiter served after the token was dropped");
            return;
        }
        // the queued request is cancelled
    }
    drop(t1);
    let f3 = runner.get_token();
    futures_util::pin_mut!(f3);
    match f3.poll(&mut cx) { Poll::Ready(t) => std::mem::forget(t), Poll::Pending => panic!("C13: slot stranded after a cancelled request and a dropped token") }
    kani::cover!(true, "slot reusable after a cancelled waiter");
}

// ------------------------------------------------------------------------------------------------ C08: parse_request / record_boundary

pub(crate) fn poll_once<F: Future>(f: Pin<&mut F>) -> Poll<F::Output> { let mut cx = noop_cx(); f.poll(&mut cx) }

// ------------------------------------------------------------------------------------------------ C07 / C11: Request::close

pub(crate) fn close_case(keep_conn: bool, pending_out: usize, raw_extra: usize) {
    let cfg = sv::cfg1();
    let id: u16 = kani::any();
    kani::assume(id != 0);
    let mut raw = [0u8; sv::B];
    // look-ahead already buffered: `raw_extra` bytes of the NEXT request (must survive the hand-off)
    let extra: [u8; 4] = kani::any();
    let mut i = 0; while i < raw_extra { raw[i] = extra[i]; i += 1; }
    let mut out = Vec::with_capacity(32);
    let mut i = 0; while i < pending_out { out.push(0xD0 + i as u8); i += 1; }
    // at a record boundary, all input streams done (stream = None, request writeable)
    let mut parser = sv::mk_code(&cfg, raw, (0, 0, 0, raw_extra), 1, fcgi::Role::Responder, id, None, 0, 0, out, 0);
    parser.request.flags = fcgi::RequestFlags::from(if keep_conn { 1 } else { 0 });
    let status = match kani::any::<u8>() % 3 { 0 => ExitStatus::Complete(kani::any()), 1 => ExitStatus::Overloaded, _ => ExitStatus::UnknownRole };
    let (ps, app) = match status { ExitStatus::Complete(c) => (0u8, c), ExitStatus::Overloaded => (2, 0), ExitStatus::UnknownRole => (3, 0) };
    // expected bytes on the wire: pending replies, empty Stdout, empty Stderr, EndRequest(status)
    let (h, l) = ((id >> 8) as u8, id as u8);
    let a = app.to_be_bytes();
    let mut exp = [0u8; 40];
    let mut n = 0;
    let mut i = 0; while i < pending_out { exp[n] = 0xD0 + i as u8; n += 1; i += 1; }
    let tail: [u8; 32] = [1, 6, h, l, 0, 0, 0, 0,  1, 7, h, l, 0, 0, 0, 0,  1, 3, h, l, 0, 8, 0, 0,  a[0], a[1], a[2], a[3], ps, 0, 0, 0];
    let mut i = 0; while i < 32 { exp[n] = tail[i]; n += 1; i += 1; }
    let w = ExpectW { exp, exp_len: n, pos: 0, calls: 0, pend_budget: 1, partial_budget: 2, fail_at: 0, fail_zero: false };
    let req = Request { parser, input: CountR::new(0, 0), output: Arc::new(Mutex::new(w)), lock: None, writeable: true };
    let mut fut = std::mem::ManuallyDrop::new(req.close(status));
    let mut polls = 0;
    let res = loop {
        let pinned = unsafe { Pin::new_unchecked(&mut *fut) };
        match poll_once(pinned) { Poll::Ready(r) => break r, Poll::Pending => { polls += 1; assert!(polls <= 1, "only the writer may make close() wait, once"); } }
    };
    match res {
        Ok((rp, _r, w)) => {
            assert!(keep_conn, "C07: connection reused although the request did not set the keep-connection flag");
            assert!(w.pos == w.exp_len, "C07: bytes written at request end are not [pending replies] + empty Stdout + empty Stderr + EndRequest(status, id)");
            let (il, cap, is_header, out_empty) = crate::parser::request::verif_kani::x_parser(&rp);
            assert!(il == raw_extra && cap == sv::B && is_header && out_empty, "C05/C07: next request parser must start with exactly the look-ahead bytes");
            let mut i = 0; while i < raw_extra { assert!(crate::parser::request::verif_kani::x_byte(&rp, i) == extra[i], "look-ahead bytes changed"); i += 1; }
            kani::cover!(true, "connection reused");
            std::mem::forget(rp); std::mem::forget(w);
        }
        Err(e) => {
            assert!(!keep_conn, "C07: connection dropped although keep-connection was requested and no I/O error occurred");
            assert!(e.kind() == io::ErrorKind::ConnectionReset, "C07: close without keep-connection must end with ConnectionReset");
            std::mem::forget(e);
            kani::cover!(true, "connection closed after the request");
        }
    }
}

pub(crate) fn close_light_case(keep_conn: bool, pending_out: usize, raw_extra: usize, w_pend: usize, w_partial: usize) {
    let cfg = sv::cfg1();
    let mut raw = [0u8; sv::B];
    let extra: [u8; 4] = kani::any();
    let mut i = 0; while i < raw_extra { raw[i] = extra[i]; i += 1; }
    let mut out = Vec::with_capacity(32);
    // pending management replies are the marker bytes 0xAB 0xCD (see OrderW); the epilogue of request 7 / Overloaded has no such byte
    if pending_out == 2 { out.push(0xAB); out.push(0xCD); }
    let mut parser = sv::mk_code(&cfg, raw, (0, 0, 0, raw_extra), 1, fcgi::Role::Responder, 7, None, 0, 0, out, 0);
    parser.request.flags = fcgi::RequestFlags::from(if keep_conn { 1 } else { 0 });
    let w = OrderW { len: 0, calls: 0, pend_budget: w_pend, partial_budget: w_partial, epilogue_started: false };
    let req = Request { parser, input: CountR::new(0, 0), output: Arc::new(Mutex::new(w)), lock: None, writeable: true };
    unsafe { crate::protocol::body::verif_kani::GE_ARGS = (0, 0, 0, 0); }
    let mut fut = std::mem::ManuallyDrop::new(req.close(ExitStatus::Overloaded));
    let mut polls = 0;
    let res = loop {
        let pinned = unsafe { Pin::new_unchecked(&mut *fut) };
        match poll_once(pinned) { Poll::Ready(r) => break r, Poll::Pending => { polls += 1; assert!(polls <= w_pend, "only a Pending writer may make close() wait"); kani::cover!(true, "close() suspended on the writer"); } }
    };
    assert!(unsafe { crate::protocol::body::verif_kani::GE_ARGS } == (7, 2, 2, 1), "C07: the end-of-request records must be built once, for this request's id, the handler's exit status and both output streams of a writeable Responder");
    match res {
        Ok((rp, _r, w)) => {
            assert!(keep_conn, "C07: connection reused although the request did not set the keep-connection flag");
            assert!(w.len == pending_out + crate::protocol::body::verif_kani::EPI_MODEL_LEN, "C07: bytes written at request end are not [pending replies] + the end-of-request records");
            let (il, cap, is_header, out_empty) = crate::parser::request::verif_kani::x_parser(&rp);
            assert!(il == raw_extra && cap == sv::B && is_header && out_empty, "C05/C07: next request parser must start with exactly the look-ahead bytes");
            let mut i = 0; while i < raw_extra { assert!(crate::parser::request::verif_kani::x_byte(&rp, i) == extra[i], "look-ahead bytes changed"); i += 1; }
            kani::cover!(true, "connection reused");
            std::mem::forget(rp); std::mem::forget(w);
        }
        Err(e) => {
            assert!(!keep_conn, "C07: connection dropped although keep-connection was requested and no I/O error occurred");
            assert!(e.kind() == io::ErrorKind::ConnectionReset, "C07: close without keep-connection must end with ConnectionReset");
            std::mem::forget(e);
            kani::cover!(true, "connection closed after the request");
        }
    }
}

// @harness name=c07_close_order_keep props=C07,C11 tier=quick timeout=2400 rmbody=ioerr,nogrow,nonv,nowaiters,nodropreq,nopollinput,noparse mem=30 unwindset=WriteAll<.*>.as.futures_util::Future>::poll$:4;drop_glue::<.slab::Entry<.*>.>$:2 dead=2
// @bound Request::close(Overloaded) of request 7 at a record boundary with all input consumed (writeable), KeepConn set, 2 bytes of pending management replies (markers) and 3 bytes of look-ahead for the next request; make_request_epilogue replaced by a length-only model that records its arguments (its bytes: c17_epilogue_*); the transport checks the ORDER (no reply byte after an epilogue byte) and counts; it accepts every write completely and at once (one poll)
// @functions Request::close, Request::writeable, Request::record_boundary (at a boundary), make_request_epilogue, stream::Parser::into_request_parser
#[kani::proof]
#[kani::unwind(6)]
#[kani::stub(std::hash::RandomState::new, fixed_random_state)]
#[kani::stub(alloc::fmt::format, crate::verif_kani::fmt_format_stub)]
#[kani::stub(fcgi::body::make_request_epilogue, crate::protocol::body::verif_kani::epilogue_model)]
pub(crate) fn c07_close_order_keep() { close_light_case(true, 2, 3, 0, 0); }

// @harness name=c07_close_order_nokeep props=C07 tier=quick timeout=2400 rmbody=ioerr,nogrow,nonv,nowaiters,nodropreq,nopollinput,noparse mem=30 unwindset=WriteAll<.*>.as.futures_util::Future>::poll$:4;drop_glue::<.slab::Entry<.*>.>$:2 dead=2
// @bound as c07_close_order_keep without KeepConn and without look-ahead: the epilogue is written, then the connection ends with ConnectionReset
// @functions Request::close, make_request_epilogue
#[kani::proof]
#[kani::unwind(6)]
#[kani::stub(std::hash::RandomState::new, fixed_random_state)]
#[kani::stub(alloc::fmt::format, crate::verif_kani::fmt_format_stub)]
#[kani::stub(fcgi::body::make_request_epilogue, crate::protocol::body::verif_kani::epilogue_model)]
pub(crate) fn c07_close_order_nokeep() { close_light_case(false, 2, 0, 0, 0); }

// @harness name=c07_close_order_keep_pending props=C07,C11 tier=manual timeout=6000 rmbody=ioerr,nogrow,nonv,nowaiters,nodropreq,nopollinput,noparse mem=40 est=25 unwindset=WriteAll<.*>.as.futures_util::Future>::poll$:4;drop_glue::<.slab::Entry<.*>.>$:2 dead=1
// @bound as c07_close_order_keep, but the transport may return Pending once and accept one write only partly (close() polled up to twice)
// @functions Request::close, futures_util WriteAll
#[kani::proof]
#[kani::unwind(6)]
#[kani::stub(std::hash::RandomState::new, fixed_random_state)]
#[kani::stub(alloc::fmt::format, crate::verif_kani::fmt_format_stub)]
#[kani::stub(fcgi::body::make_request_epilogue, crate::protocol::body::verif_kani::epilogue_model)]
pub(crate) fn c07_close_order_keep_pending() { close_light_case(true, 2, 3, 1, 1); }

// @harness name=c07_close_keep_writeable props=C07,C11 tier=manual timeout=7000 rmbody=ioerr,nogrow,nonv,nowaiters,nodropreq,nopollinput,noparse mem=20 unwindset=verif_kani::close_case$:34;WriteAll<.*>.as.futures_util::Future>::poll$:4;drop_glue::<.slab::Entry<.*>.>$:2
// @bound Request::close at a record boundary with all input consumed (writeable), KeepConn set, 2 bytes of pending management replies, 3 bytes of look-ahead for the next request; every ExitStatus (all u32 app statuses) and request id; the transport checks every write against the expected byte sequence and accepts any split (<= 2 short writes) and <= 1 Pending
// @functions Request::close, Request::writeable, Request::record_boundary, make_request_epilogue, stream::Parser::into_request_parser
#[kani::proof]
#[kani::unwind(6)]
#[kani::stub(std::hash::RandomState::new, fixed_random_state)]
#[kani::stub(stream::Parser::parse, sv::parse_contract)]
#[kani::stub(alloc::fmt::format, crate::verif_kani::fmt_format_stub)]
pub(crate) fn c07_close_keep_writeable() { close_case(true, 2, 3); }

// @harness name=c07_close_nokeep props=C07 tier=manual timeout=7000 rmbody=ioerr,nogrow,nonv,nowaiters,nodropreq,nopollinput,noparse mem=20 unwindset=verif_kani::close_case$:34;WriteAll<.*>.as.futures_util::Future>::poll$:4;drop_glue::<.slab::Entry<.*>.>$:2
// @bound as above without KeepConn, no pending replies, no look-ahead
// @functions Request::close, make_request_epilogue
#[kani::proof]
#[kani::unwind(6)]
#[kani::stub(std::hash::RandomState::new, fixed_random_state)]
#[kani::stub(stream::Parser::parse, sv::parse_contract)]
#[kani::stub(alloc::fmt::format, crate::verif_kani::fmt_format_stub)]
pub(crate) fn c07_close_nokeep() { close_case(false, 0, 0); }

// ------------------------------------------------------------------------------------------------ async glue against the parser CONTRACT (C08, C09, C12)
// stream::Parser::parse is replaced by sv::parse_contract (any consumption, any replies, any delivery, errors);
// the harnesses below therefore cover poll_input / poll_output for every parser behaviour and every transport
// behaviour within the call budgets.

/// Transport stubs for the glue harnesses (parser replaced by its contract): only COUNT bytes - contents are
/// irrelevant there, and byte-copy loops with symbolic bounds are what makes CBMC run out of memory.
pub(crate) struct CountR { pub avail: usize, pub pos: usize, pub calls: usize, pub pend_budget: usize, pub fail: u8, pub last_pending: bool, pub said_eof: bool, pub said_err: bool,
                            pub empty_reads: usize,   // reads into a zero-length buffer (answered with Ok(0), which is NOT an end of file)
                            pub max_calls: usize }    // 0 = no limit; otherwise the transport reports EOF / its error from this call on
impl CountR { pub(crate) fn new(avail: usize, pend_budget: usize) -> Self { CountR { avail, pos: 0, calls: 0, pend_budget, fail: 0, last_pending: false, said_eof: false, said_err: false, empty_reads: 0, max_calls: 0 } } }
impl AsyncRead for CountR {
    fn poll_read(self: Pin<&mut Self>, _cx: &mut Context<'_>, buf: &mut [u8]) -> Poll<io::Result<usize>> {
        let this = self.get_mut();
        this.calls += 1;
        this.last_pending = false;
        if this.pend_budget > 0 && kani::any() { this.pend_budget -= 1; this.last_pending = true; return Poll::Pending; }
        if buf.is_empty() { this.empty_reads += 1; return Poll::Ready(Ok(0)); }
        let left = if this.max_calls != 0 && this.calls >= this.max_calls { 0 } else { this.avail - this.pos };
        if left == 0 {
            // a failing transport reports its error ONCE (kind 1: BrokenPipe, kind 2: Interrupted), end of file afterwards
            if this.fail != 0 && !this.said_err {
                this.said_err = true;
                return Poll::Ready(Err(if this.fail == 1 { io::ErrorKind::BrokenPipe } else { io::ErrorKind::Interrupted }.into()));
            }
            this.said_eof = true;
            return Poll::Ready(Ok(0));
        }
        let k: usize = kani::any();
        kani::assume(1 <= k && k <= left && k <= buf.len());
        this.pos += k;
        Poll::Ready(Ok(k))
    }
}
/// ghost copies of CountW's fault bookkeeping (readable while the request keeps the output lock)
pub(crate) static mut GW_FAILED: bool = false;
pub(crate) static mut GW_AFTER_FAIL: usize = 0;
pub(crate) struct CountW { pub len: usize, pub calls: usize, pub pend_budget: usize, pub partial_budget: usize, pub fail_at: usize, pub fail_zero: bool, pub failed: bool, pub writes_after_fail: usize }
impl CountW { pub(crate) fn new(pend_budget: usize, partial_budget: usize) -> Self { CountW { len: 0, calls: 0, pend_budget, partial_budget, fail_at: 0, fail_zero: false, failed: false, writes_after_fail: 0 } } }
impl AsyncWrite for CountW {
    fn poll_write(self: Pin<&mut Self>, _cx: &mut Context<'_>, buf: &[u8]) -> Poll<io::Result<usize>> {
        let this = self.get_mut();
        this.calls += 1;
        if this.failed { this.writes_after_fail += 1; unsafe { GW_AFTER_FAIL += 1; } }
        if this.fail_at != 0 && this.calls == this.fail_at {
            this.failed = true; unsafe { GW_FAILED = true; }
            // a failing transport: either an error, or a zero-length write for a non-empty buffer
            return if this.fail_zero { Poll::Ready(Ok(0)) } else { Poll::Ready(Err(io::ErrorKind::BrokenPipe.into())) };
        }
        if this.pend_budget > 0 && kani::any() { this.pend_budget -= 1; return Poll::Pending; }
        let mut k = buf.len();
        if this.partial_budget > 0 && k > 1 {
            let c: usize = kani::any();
            kani::assume(1 <= c && c <= k);
            if c < k { this.partial_budget -= 1; }
            k = c;
        }
        this.len += k;
        Poll::Ready(Ok(k))
    }
    fn poll_flush(self: Pin<&mut Self>, _cx: &mut Context<'_>) -> Poll<io::Result<()>> { Poll::Ready(Ok(())) }
    fn poll_close(self: Pin<&mut Self>, _cx: &mut Context<'_>) -> Poll<io::Result<()>> { Poll::Ready(Ok(())) }
}

/// Ordering transport for close(): reply bytes produced by the parser contract are the markers 0xAB / 0xCD, the
/// epilogue (request id 7, ExitStatus::Overloaded) consists of bytes <= 8 only.  Checks, without a byte log, that no
/// reply byte is offered after an epilogue byte (C07: pending management replies come BEFORE the stream ends / EndRequest).
pub(crate) struct OrderW { pub len: usize, pub calls: usize, pub pend_budget: usize, pub partial_budget: usize, pub epilogue_started: bool }
impl AsyncWrite for OrderW {
    fn poll_write(self: Pin<&mut Self>, _cx: &mut Context<'_>, buf: &[u8]) -> Poll<io::Result<usize>> {
        let this = self.get_mut();
        this.calls += 1;
        let marker = |b: u8| b == 0xAB || b == 0xCD;
        let i: usize = kani::any();
        if i < buf.len() && marker(buf[i]) {
            assert!(!this.epilogue_started, "C07: a pending management reply is written after the end-of-request records");
            let j: usize = kani::any();
            if j < i { assert!(marker(buf[j]), "C07: a pending management reply is written after the end-of-request records"); }
        }
        if this.pend_budget > 0 && kani::any() { this.pend_budget -= 1; return Poll::Pending; }
        let mut k = buf.len();
        if this.partial_budget > 0 && k > 1 {
            let c: usize = kani::any();
            kani::assume(1 <= c && c <= k);
            if c < k { this.partial_budget -= 1; }
            k = c;
        }
        if k > 0 && !marker(buf[k - 1]) { this.epilogue_started = true; }
        this.len += k;
        Poll::Ready(Ok(k))
    }
    fn poll_flush(self: Pin<&mut Self>, _cx: &mut Context<'_>) -> Poll<io::Result<()>> { Poll::Ready(Ok(())) }
    fn poll_close(self: Pin<&mut Self>, _cx: &mut Context<'_>) -> Poll<io::Result<()>> { Poll::Ready(Ok(())) }
}

/// the counting writer has already accepted one byte (mid-reply start state)
pub(crate) fn guard_len_set(g: &futures_util::lock::OwnedMutexGuard<CountW>) { let p: *const CountW = &**g; unsafe { (*(p as *mut CountW)).len = 1; } }

pub(crate) fn glue_request<'a>(cfg: &'a Config, r: CountR, w: CountW, role: fcgi::Role, stream: Option<fcgi::RecordType>, writeable: bool,
                    buffered: usize, pending_out: usize) -> Request<'a, CountR, CountW> {
    let mut raw = [0u8; sv::B];
    let mut i = 0;
    while i < buffered { raw[i] = unsafe { sv::GS_STREAM[i] }; i += 1; }
    let mut out = Vec::with_capacity(32);
    let mut i = 0; while i < pending_out { out.push(0xA0 + i as u8); i += 1; }
    unsafe { sv::GS_POS = buffered; sv::GS_OUT_TOTAL = pending_out; }
    // `buffered` stream bytes are already parsed into the stream buffer: geometry (0, buffered, buffered, buffered)
    let parser = sv::mk_code(cfg, raw, (0, buffered, buffered, buffered), 1, role, 1, stream, 0, 0, out, 0);
    Request { parser, input: r, output: Arc::new(Mutex::new(w)), lock: None, writeable }
}

pub(crate) fn glue_poll_read_case(buffered_max: usize, pend_sym: bool, d_fixed: Option<usize>, mid_reply: bool, wfault: bool, filter: bool) {
    let cfg = sv::cfg1();
    let gs: [u8; 8] = kani::any();
    unsafe { sv::GS_STREAM = gs; sv::GS_ERR_BUDGET = 1; }
    let buffered: usize = if buffered_max == 0 { 0 } else { let x: usize = kani::any(); kani::assume(x <= buffered_max); x };
    let pending_out: usize = if pend_sym && kani::any() { 2 } else { 0 };
    let mut r = CountR::new(2, 1);
    r.fail = { let f: u8 = kani::any(); kani::assume(f <= 2); f };
    let rfail = r.fail;
    let mut w0 = CountW::new(1, 1);
    unsafe { GW_FAILED = false; GW_AFTER_FAIL = 0; }
    if wfault {
        // write-side fault injection (C12): the 1st or 2nd write call fails, with an error or with a zero-length write
        w0.fail_at = if kani::any() { 1 } else { 2 };
        w0.fail_zero = kani::any();
    }
    let fail_zero = w0.fail_zero;
    // `filter`: a Filter request that is not writeable yet, reading Stdin (not its final stream) or Data (final)
    let on_final = !filter || kani::any();
    let mut req = if filter {
        glue_request(&cfg, r, w0, fcgi::Role::Filter, Some(if on_final { fcgi::RecordType::Data } else { fcgi::RecordType::Stdin }), false, buffered, pending_out)
    } else {
        glue_request(&cfg, r, w0, fcgi::Role::Responder, Some(fcgi::RecordType::Stdin), true, buffered, pending_out)
    };
    if mid_reply {
        // an earlier poll already put the first byte of a 2-byte reply on the wire and is holding the output lock
        kani::assume(pending_out == 2 && buffered == 0);
        req.parser.consume_output(1);
        unsafe { sv::GS_OUT_TOTAL = 2; }
        let guard = req.output.clone().try_lock_owned().expect("free");
        guard_len_set(&guard);
        req.lock = Some(RepeatableLockFuture::Done(guard));
    }
    let mut cx = noop_cx();
    let d: usize = match d_fixed { Some(x) => x, None => { let x: usize = kani::any(); kani::assume(x <= 4); x } };
    let mut b = [0xEEu8; 4];
    match Pin::new(&mut req).poll_read(&mut cx, &mut b[..d]) {
        Poll::Ready(Ok(n)) => {
            assert!(!unsafe { GW_FAILED }, "C12: a failed or zero-length write was swallowed (the read succeeded)");
            assert!(n <= d, "more bytes reported than the caller's buffer holds");
            let mut i = 0;
            while i < n { assert!(b[i] == gs[i], "C09: bytes handed to the caller are not the stream's bytes in order, each once"); i += 1; }
            assert!(n + req.parser.stream_buffer().len() == unsafe { sv::GS_POS }, "C09: delivered bytes are neither with the caller nor in the stream buffer");
            if buffered > 0 && d > 0 {
                assert!(n == if d < buffered { d } else { buffered } && req.input.calls == 0 && unsafe { sv::GS_PARSE_CALLS } == 0,
                        "C09: buffered stream data must be served first, without parsing or touching the transport");
                kani::cover!(d < buffered, "caller buffer smaller than the buffered data");
            }
            if n == 0 && d > 0 { assert!(unsafe { sv::GS_END }, "C09/C12: a 0-byte read (end of file) although the stream has not ended"); kani::cover!(true, "end of stream reported"); }
            assert!(!req.input.said_eof && !req.input.said_err || n > 0 || unsafe { sv::GS_END }, "C12: transport EOF/error turned into a successful empty read");
            if filter && on_final && unsafe { sv::GS_PARSE_CALLS } > 0 && (n > 0 || unsafe { sv::GS_END }) {
                assert!(req.writeable, "C09: data / end of the final input stream arrived but the request did not become writeable");
                kani::cover!(true, "request became writeable on its final stream");
            }
            kani::cover!(n == 3 && buffered == 0, "three bytes delivered directly into the caller's buffer");
            kani::cover!(d == 0, "zero-length caller buffer");
        }
        Poll::Ready(Err(e)) => {
            let k = e.kind(); std::mem::forget(e);
            if unsafe { GW_FAILED } {
                assert!(k == if fail_zero { io::ErrorKind::WriteZero } else { io::ErrorKind::BrokenPipe }, "C12: a write failure must surface as the transport's error, a zero-length write as WriteZero");
                assert!(unsafe { GW_AFTER_FAIL } == 0, "C12: something was written after a failed write");
                kani::cover!(fail_zero, "zero-length write reported as WriteZero");
                kani::cover!(!fail_zero, "write error passed on");
            }
            assert!(req.input.empty_reads == 0 || unsafe { sv::GS_UNCONSUMED } == sv::B, "C12/C07: the transport was offered an empty buffer (its 0-byte answer is then taken for end of file) although the parser's buffer has reclaimable space");
            if req.input.said_eof { assert!(k == io::ErrorKind::UnexpectedEof, "C12: end of file inside a stream must surface as UnexpectedEof"); }
            // (an Interrupted read may legitimately be retried, so only BrokenPipe is required to surface as such)
            if req.input.said_err && rfail == 1 && !req.input.said_eof { assert!(k == io::ErrorKind::BrokenPipe, "C12: the transport's read error must be passed on unchanged"); }
            kani::cover!(req.input.said_err && rfail == 2, "transport read failed with Interrupted");
            kani::cover!(k == io::ErrorKind::UnexpectedEof, "EOF inside the stream");
            kani::cover!(k == io::ErrorKind::ConnectionAborted, "abort reported by the parser");
            kani::cover!(k == io::ErrorKind::BrokenPipe, "transport error passed on");
        }
        Poll::Pending => {
            assert!(!unsafe { GW_FAILED }, "C12: a failed or zero-length write leaves the operation pending (the task would spin or hang) instead of ending it with an error");
            if req.input.last_pending {
                // suspended on the reader
                assert!(req.parser.output_buffer().is_empty(), "C08:reply-owed-at-read-pending: waiting for client input while replies are still in the parser's output buffer");
                let w = req.output.try_lock().expect("output lock must be free while waiting for input");
                assert!(w.len == unsafe { sv::GS_OUT_TOTAL }, "C08:reply-not-on-transport-at-read-pending");
                assert!(unsafe { sv::GS_FED } == req.input.pos, "C08: bytes read from the transport were not handed to the parser before waiting again");
                kani::cover!(unsafe { sv::GS_OUT_TOTAL } > pending_out, "waiting for input with a freshly produced reply flushed");
                std::mem::forget(w);
            } else {
                kani::cover!(true, "suspended on the writer");
                // C10: while a reply is only partly on the wire the output lock must stay with the request
                if sv::x_out(&req.parser).1 > 0 || mid_reply {
                    assert!(req.lock.is_some() && req.output.try_lock().is_none(), "C10: output lock released in the middle of a management reply (a StreamWriter could interleave its record)");
                    kani::cover!(mid_reply, "writer not ready again in the middle of a reply: lock kept");
                }
            }
            // bytes delivered by the parser in this call must not be lost by a Pending result
            assert!(req.parser.stream_buffer().len() == unsafe { sv::GS_POS }, "C09: stream bytes were delivered by the parser into the caller's buffer but the call returned Pending (bytes lost)");
        }
    }
    // at every exit, every byte read from the transport has been handed to the parser exactly once
    assert!(unsafe { sv::GS_FED } == req.input.pos, "C12/C09: the bytes handed to the parser are not exactly the bytes read from the transport (a read count was dropped or fed twice)");
    if filter { assert!(!req.writeable || on_final, "C09: the request reports itself writeable although an input stream before its last one is still active"); }
    std::mem::forget(req);
}


// @harness name=c09_glue_poll_read_min props=C09,C08,C12 tier=thorough timeout=1800 rmbody=ioerr,nogrow,nowaiters mem=20 unwindset=Request::<'_,.*>::poll_input$:5;Request::<'_,.*>::poll_output$:4;drop_glue::<.slab::Entry<.*>.>$:2 dead=6
// @bound ONE poll of Request::poll_read against the parser contract: nothing buffered, no pending replies, caller buffer of 4 bytes; reader: <= 2 reads of symbolic size, <= 1 Pending, then EOF or error; writer: any split (<= 1 short write), <= 1 Pending; parser contract: any consumption / replies / delivery (<= 3 bytes per call) / end of stream / <= 1 error. Sequences of polls follow by induction over the symbolic state
// @functions Request::poll_read, Request::poll_input, Request::poll_output, RepeatableLockFuture::poll
#[kani::proof]
#[kani::unwind(8)]
#[kani::stub(std::hash::RandomState::new, fixed_random_state)]
#[kani::stub(stream::Parser::parse, sv::parse_contract)]
#[kani::stub(stream::Parser::compress, sv::compress_contract)]
pub(crate) fn c09_glue_poll_read_min() { glue_poll_read_case(0, false, Some(4), false, false, false); }

// @harness name=c09_glue_poll_read_pending props=C09,C08,C12 tier=thorough timeout=2400 rmbody=ioerr,nogrow,nowaiters mem=20 unwindset=Request::<'_,.*>::poll_input$:5;Request::<'_,.*>::poll_output$:4;drop_glue::<.slab::Entry<.*>.>$:2 dead=5
// @bound ONE poll of Request::poll_read against the parser contract: nothing buffered, 0 or 2 reply bytes pending, caller buffer 0..4; reader: <= 2 reads of symbolic size, <= 1 Pending, then EOF or error; writer: any split (<= 1 short write), <= 1 Pending; parser contract: any consumption / replies / delivery (<= 3 bytes per call) / end of stream / <= 1 error. Sequences of polls follow by induction over the symbolic state
// @functions Request::poll_read, Request::poll_input, Request::poll_output, RepeatableLockFuture::poll
#[kani::proof]
#[kani::unwind(8)]
#[kani::stub(std::hash::RandomState::new, fixed_random_state)]
#[kani::stub(stream::Parser::parse, sv::parse_contract)]
#[kani::stub(stream::Parser::compress, sv::compress_contract)]
pub(crate) fn c09_glue_poll_read_pending() { glue_poll_read_case(0, true, None, false, false, false); }

// @harness name=c09_glue_poll_read_buffered props=C09,C08,C12 tier=quick timeout=2400 rmbody=ioerr,nogrow,nowaiters mem=20 unwindset=Request::<'_,.*>::poll_input$:5;Request::<'_,.*>::poll_output$:4;drop_glue::<.slab::Entry<.*>.>$:2 dead=4
// @bound ONE poll of Request::poll_read against the parser contract: 0..2 stream bytes buffered, 0 or 2 reply bytes pending, caller buffer 0..4; reader: <= 2 reads of symbolic size, <= 1 Pending, then EOF or error; writer: any split (<= 1 short write), <= 1 Pending; parser contract: any consumption / replies / delivery (<= 3 bytes per call) / end of stream / <= 1 error. Sequences of polls follow by induction over the symbolic state
// @functions Request::poll_read, Request::poll_input, Request::poll_output, RepeatableLockFuture::poll
#[kani::proof]
#[kani::unwind(8)]
#[kani::stub(std::hash::RandomState::new, fixed_random_state)]
#[kani::stub(stream::Parser::parse, sv::parse_contract)]
#[kani::stub(stream::Parser::compress, sv::compress_contract)]
pub(crate) fn c09_glue_poll_read_buffered() { glue_poll_read_case(2, true, None, false, false, false); }

// ------------------------------------------------------------------------------------------------ C07 / C11 / C12 / C08: close() with unread input (draining to a record boundary)

// @harness name=c07_close_drain props=C07,C11,C12,C08 tier=manual timeout=7000 rmbody=ioerr,nogrow,nonv,nowaiters,nodropreq,nopollinput mem=24 unwindset=verif_kani::close_drain_case$:34;WriteAll<.*>.as.futures_util::Future>::poll$:4;drop_glue::<.slab::Entry<.*>.>$:2;Request::<'_,.*>::record_boundary::.closure.0.$:4;Request::<'_,.*>::poll_output$:4
// @bound Request::close in the middle of an unread record (payload_rem = 1, active stream None after close() selects it), KeepConn, parser contract (any consumption, replies, boundary reached or not, <= 1 error: AbortRequest or a fatal one); reader: 1 byte then EOF, <= 1 Pending; writer counting, <= 1 short write, <= 1 Pending; polled up to 4 times
// @functions Request::close, Request::record_boundary, Request::poll_output, make_request_epilogue
#[kani::proof]
#[kani::unwind(6)]
#[kani::stub(std::hash::RandomState::new, fixed_random_state)]
#[kani::stub(stream::Parser::parse, sv::parse_contract)]
#[kani::stub(stream::Parser::compress, sv::compress_contract)]
#[kani::stub(alloc::fmt::format, crate::verif_kani::fmt_format_stub)]
pub(crate) fn c07_close_drain() { close_drain_case(); }

pub(crate) fn close_drain_case() {
    let cfg = sv::cfg1();
    unsafe { sv::GS_ERR_BUDGET = 1; sv::GS_OUT_TOTAL = 0; }
    let raw = [0u8; sv::B];
    // handler finished without reading its input: Stdin still active, writeable (Responder), one payload byte of a record outstanding
    let mut parser = sv::mk_code(&cfg, raw, (0, 0, 0, 0), 1, fcgi::Role::Responder, 7, Some(fcgi::RecordType::Stdin), 1, 0, Vec::with_capacity(32), 0);
    parser.request.flags = fcgi::RequestFlags::from(1);
    let w = OrderW { len: 0, calls: 0, pend_budget: 1, partial_budget: 1, epilogue_started: false };
    let req = Request { parser, input: CountR::new(1, 1), output: Arc::new(Mutex::new(w)), lock: None, writeable: true };
    let rp: *const CountR = &req.input;
    // observe the writer without holding a second Arc (close() requires all other handles to be gone)
    let wp: *const Mutex<OrderW> = Arc::as_ptr(&req.output);
    let mut fut = std::mem::ManuallyDrop::new(req.close(ExitStatus::Overloaded));
    let mut polls = 0;
    loop {
        polls += 1;
        assert!(polls <= 4, "close() must make progress");
        let pinned = unsafe { Pin::new_unchecked(&mut *fut) };
        match poll_once(pinned) {
            Poll::Pending => {
                let rr = unsafe { &*rp };
                if rr.last_pending {
                    // suspended on the reader while draining: everything owed must be on the wire
                    let g = unsafe { (*wp).try_lock() }.expect("output lock must be free while waiting for input");
                    assert!(g.len == unsafe { sv::GS_OUT_TOTAL }, "C08:reply-owed-at-read-pending: close() waits for the rest of a record while replies are unsent");
                    kani::cover!(unsafe { sv::GS_OUT_TOTAL } > 0, "draining: reply flushed before waiting");
                    std::mem::forget(g);
                }
            }
            Poll::Ready(res) => {
                let (aborts, fatals) = unsafe { sv::GS_ERRS };
                let rr = unsafe { &*rp };
                match &res {
                    Ok(_) => {
                        assert!(fatals == 0, "C12/C07: close() succeeded although the parser reported a fatal error");
                        assert!(!rr.said_eof, "C12: close() succeeded although the transport ended in the middle of a record");
                        kani::cover!(aborts == 1, "C11: an abort seen while draining is tolerated");
                        kani::cover!(aborts == 0, "drained to the record boundary");
                    }
                    Err(e) => {
                        // the only clean reason to fail here: a fatal parser error, or EOF / error of the transport
                        assert!(fatals == 1 || rr.said_eof || rr.said_err, "C11/C07: close() failed although the only irregularity was a client abort (or none)");
                        if rr.said_eof && fatals == 0 { assert!(e.kind() == io::ErrorKind::UnexpectedEof, "C12: EOF while draining must surface as UnexpectedEof"); }
                        kani::cover!(fatals == 1, "fatal protocol error while draining");
                        kani::cover!(rr.said_eof, "EOF while draining");
                    }
                }
                std::mem::forget(res);
                break;
            }
        }
    }
}

// @harness name=c10_glue_reply_lock props=C10 tier=quick timeout=2400 rmbody=ioerr,nogrow,nowaiters mem=20 unwindset=Request::<'_,.*>::poll_input$:5;Request::<'_,.*>::poll_output$:4;drop_glue::<.slab::Entry<.*>.>$:2 dead=4
// @bound ONE poll of Request::poll_read from the state "first byte of a 2-byte management reply already written, output lock held by the request": writer <= 1 Pending / <= 1 short write, reader <= 2 reads / <= 1 Pending, parser contract as in c09_glue_poll_read_*: the lock stays with the request until the reply is complete
// @functions Request::poll_output, RepeatableLockFuture::poll, Request::poll_input
#[kani::proof]
#[kani::unwind(8)]
#[kani::stub(std::hash::RandomState::new, fixed_random_state)]
#[kani::stub(stream::Parser::parse, sv::parse_contract)]
#[kani::stub(stream::Parser::compress, sv::compress_contract)]
pub(crate) fn c10_glue_reply_lock() { glue_poll_read_case(0, true, None, true, false, false); }

// @harness name=c12_glue_write_fault props=C12 tier=quick timeout=2400 rmbody=ioerr,nogrow,nowaiters mem=20 unwindset=Request::<'_,.*>::poll_input$:5;Request::<'_,.*>::poll_output$:4;drop_glue::<.slab::Entry<.*>.>$:2 dead=4
// @bound ONE poll of Request::poll_read as in c09_glue_poll_read_pending, with a write-side fault: the 1st or 2nd write call on the transport returns an error (BrokenPipe) or a zero-length write; the poll must then end with that error resp. WriteZero, never Pending or success, and nothing is written afterwards
// @functions Request::poll_output (write error / WriteZero), Request::poll_input
#[kani::proof]
#[kani::unwind(8)]
#[kani::stub(std::hash::RandomState::new, fixed_random_state)]
#[kani::stub(stream::Parser::parse, sv::parse_contract)]
#[kani::stub(stream::Parser::compress, sv::compress_contract)]
pub(crate) fn c12_glue_write_fault() { glue_poll_read_case(0, true, Some(4), false, true, false); }

// @harness name=c09_glue_writeable_gate props=C09 tier=quick timeout=2400 rmbody=ioerr,nogrow,nowaiters mem=20 unwindset=Request::<'_,.*>::poll_input$:5;Request::<'_,.*>::poll_output$:4;drop_glue::<.slab::Entry<.*>.>$:2 dead=5
// @bound ONE poll of Request::poll_read as in c09_glue_poll_read_min for a Filter request that is not writeable yet, with Stdin (not final) or Data (final) as the active stream: the request becomes writeable only on its final stream, and does become writeable when data or the end of that stream arrives
// @functions Request::poll_input (writeable gating), Request::is_final_stream, Role::next_input_stream
#[kani::proof]
#[kani::unwind(8)]
#[kani::stub(std::hash::RandomState::new, fixed_random_state)]
#[kani::stub(stream::Parser::parse, sv::parse_contract)]
#[kani::stub(stream::Parser::compress, sv::compress_contract)]
pub(crate) fn c09_glue_writeable_gate() { glue_poll_read_case(0, false, Some(4), false, false, true); }

// @harness name=c09_new_writeable props=C09 tier=quick timeout=600 rmbody=ioerr,nogrow,nowaiters,nodropreq mem=12
// @bound Request::new for every role: writeable from the start iff the role has at most one input stream (Responder, Authorizer), not for Filter; output_stream() of a writeable request carries the request's id and the stream type
// @functions Request::new, Request::is_writeable, Request::output_stream
#[kani::proof]
#[kani::unwind(4)]
#[kani::stub(std::hash::RandomState::new, fixed_random_state)]
pub(crate) fn c09_new_writeable() {
    let cfg = sv::cfg1();
    let role = sv::any_role();
    let id: u16 = kani::any();
    kani::assume(id != 0);
    let parser = sv::mk_code(&cfg, [0u8; sv::B], (0, 0, 0, 0), 1, role, id, role.next_input_stream(None), 0, 0, Vec::with_capacity(32), 0);
    let req = Request::new(parser, CountR::new(0, 0), CountW::new(0, 0));
    assert!(req.is_writeable() == (role != fcgi::Role::Filter), "C09: a new request is writeable iff its role has at most one input stream");
    if req.is_writeable() {
        let sw = req.output_stream(fcgi::RecordType::Stdout);
        assert!(sw.head.request_id == id && sw.head.rtype == fcgi::RecordType::Stdout && sw.lock.is_none(), "output stream writer not bound to this request / stream");
        kani::cover!(role == fcgi::Role::Authorizer, "authorizer writes at once");
        std::mem::forget(sw);
    }
    std::mem::forget(req);
}

// @harness name=c09_output_stream_gate props=C09 tier=quick timeout=600 rmbody=ioerr,nogrow,nowaiters,nodropreq mem=12
// @bound a Filter request that has not reached its final input stream: output_stream() must refuse (panic) - the harness passes only if the call panics (kani::should_panic)
// @functions Request::output_stream
#[kani::proof]
#[kani::unwind(4)]
#[kani::should_panic]
#[kani::stub(std::hash::RandomState::new, fixed_random_state)]
pub(crate) fn c09_output_stream_gate() {
    let cfg = sv::cfg1();
    let parser = sv::mk_code(&cfg, [0u8; sv::B], (0, 0, 0, 0), 1, fcgi::Role::Filter, 7, Some(fcgi::RecordType::Stdin), 0, 0, Vec::with_capacity(32), 0);
    let req = Request::new(parser, CountR::new(0, 0), CountW::new(0, 0));
    kani::cover!(!req.is_writeable(), "Filter request not writeable before its final stream");
    let sw = req.output_stream(fcgi::RecordType::Stdout);
    std::mem::forget(sw);
    std::mem::forget(req);
}

// ------------------------------------------------------------------------------------------------ C09: AsyncBufRead (poll_fill_buf / consume) against the parser contract

// @harness name=c09_glue_fill_buf props=C09 tier=quick timeout=2400 rmbody=ioerr,nogrow,nowaiters mem=20 unwindset=Request::<'_,.*>::poll_input$:5;Request::<'_,.*>::poll_output$:4;drop_glue::<.slab::Entry<.*>.>$:2
// @bound ONE poll of Request::poll_fill_buf followed by consume(k) against the parser contract: 0..2 stream bytes already buffered, 0 or 2 reply bytes pending; reader <= 2 reads, <= 1 Pending, then EOF/error; writer <= 1 short write, <= 1 Pending; parser contract as in c09_glue_poll_read_*
// @functions Request::poll_fill_buf, Request::consume, Request::poll_input (dest = None), stream::Parser::{stream_buffer,consume_stream}
#[kani::proof]
#[kani::unwind(8)]
#[kani::stub(std::hash::RandomState::new, fixed_random_state)]
#[kani::stub(stream::Parser::parse, sv::parse_contract)]
#[kani::stub(stream::Parser::compress, sv::compress_contract)]
pub(crate) fn c09_glue_fill_buf() {
    let cfg = sv::cfg1();
    let gs: [u8; 8] = kani::any();
    unsafe { sv::GS_STREAM = gs; sv::GS_ERR_BUDGET = 1; }
    let buffered: usize = kani::any();
    kani::assume(buffered <= 2);
    let pending_out: usize = if kani::any() { 2 } else { 0 };
    let mut r = CountR::new(2, 1);
    r.fail = if kani::any() { 1 } else { 0 };
    let mut req = glue_request(&cfg, r, CountW::new(1, 1), fcgi::Role::Responder, Some(fcgi::RecordType::Stdin), true, buffered, pending_out);
    let mut cx = noop_cx();
    let got = match Pin::new(&mut req).poll_fill_buf(&mut cx) {
        Poll::Ready(Ok(slice)) => {
            let n = slice.len();
            assert!(n == unsafe { sv::GS_POS }, "C09: the buffer handed out is not exactly the stream bytes delivered so far");
            let i: usize = kani::any();
            if i < n { assert!(slice[i] == gs[i], "C09: buffered read hands out bytes that are not the stream's bytes in order"); }
            if buffered > 0 { assert!(n == buffered && unsafe { sv::GS_PARSE_CALLS } == 0, "C09: already buffered data must be handed out without parsing or touching the transport"); }
            if n == 0 { assert!(unsafe { sv::GS_END }, "C09/C12: empty buffer (end of file) although the stream has not ended"); kani::cover!(true, "end of stream"); }
            kani::cover!(n == 2 && buffered == 0, "two fresh bytes parsed into the stream buffer");
            Some(n)
        }
        Poll::Ready(Err(e)) => { std::mem::forget(e); None }
        Poll::Pending => {
            if req.input.last_pending {
                assert!(req.parser.output_buffer().is_empty(), "C08:reply-owed-at-read-pending: waiting for client input while replies are still in the parser's output buffer");
            }
            assert!(req.parser.stream_buffer().len() == unsafe { sv::GS_POS }, "C09: delivered stream bytes lost by a Pending result");
            None
        }
    };
    if let Some(n) = got {
        let k: usize = kani::any();
        Pin::new(&mut req).consume(k);
        let left = req.parser.stream_buffer();
        let c = if k < n { k } else { n };
        assert!(left.len() == n - c, "C09: consume(k) must drop exactly min(k, available) bytes");
        let i: usize = kani::any();
        if i < left.len() { assert!(left[i] == gs[c + i], "C09: bytes after consume(k) are not the rest of the stream in order"); }
        kani::cover!(k > 0 && k < n, "partial consume");
    }
    std::mem::forget(req);
}
