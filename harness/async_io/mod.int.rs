// Harnesses for src/async_io/mod.rs that call PRIVATE functions directly (Token::parse_request, Request::record_boundary)
// or stub one (Request::poll_input) and therefore depend on their signatures.  Kept apart from mod.rs so that a
// refactoring of those functions costs only these harnesses - the runner retries the others without this file.
// @requires async_io/mod.rs
// @requires parser/stream.rs
// @requires parser/request.rs
// @requires protocol/body.rs
use super::*;
use super::verif_kani::*;
use std::future::Future;
use crate::verif_kani::fixed_random_state;
use crate::parser::stream::verif_kani as sv;

// @harness name=c08_parse_request_buffered props=C08,C07 tier=manual timeout=1800 rmbody=ioerr,nogrow,nonv,noparams mem=20 unwindset=request::State::drive$:3
// @bound a request parser that was handed 8 already-buffered bytes = ONE complete record of unknown type 12 (symbolic id) by the previous request (into_request_parser); the peer sends nothing more until it sees the reply: reader Pending; writer accepts everything. One poll of Token::parse_request.
// @functions Token::parse_request, request::Parser::{parse,input_buffer}
#[kani::proof]
#[kani::unwind(18)]
#[kani::stub(std::hash::RandomState::new, fixed_random_state)]
#[kani::stub(fcgi::ProtocolVariables::parse_name, crate::verif_kani::parse_name_model)]
#[kani::stub(fcgi::ProtocolVariables::write_response, crate::verif_kani::write_response_model)]
fn c08_parse_request_buffered() {
    let cfg = sv::cfg1();
    let mut buf = [0u8; sv::B];
    let rec = unknown_record(12, kani::any());
    let mut i = 0; while i < 8 { buf[i] = rec[i]; i += 1; }
    let parser = crate::parser::request::verif_kani::mk_header_parser(&cfg, buf, 8);
    let mut r = MockR::new([0; RN], 0, 1);
    let mut w = MockW::new(0, 0);
    {
        // never dropped (the drop glue of the suspended state machine is irrelevant and expensive)
        let mut fut = std::mem::ManuallyDrop::new(Token::parse_request(parser, &mut r, &mut w));
        let pinned = unsafe { Pin::new_unchecked(&mut *fut) };
        match poll_once(pinned) {
            Poll::Pending => {}
            Poll::Ready(res) => { std::mem::forget(res); kani::cover!(true, "reader reported EOF"); return; }
        }
    }
    // the task is now suspended waiting for the client, which in turn waits for the reply to its record
    assert!(r.last_pending);
    assert!(w.len == 16, "C08:buffered-record-unprocessed-at-read-pending: parse_request waits for client input although a complete record handed over by the previous request has not been processed/answered");
    kani::cover!(true, "suspended on the reader");
}

// @harness name=c08_glue_parse_request props=C08,C07,C12 tier=quick timeout=2400 rmbody=ioerr,nogrow,nodropreq mem=30 unwindset=Token::parse_request::<.*>::.closure.0.$:4;WriteAll<.*>.as.futures_util::Future>::poll$:3
// @bound Token::parse_request against the request parser's contract (any consumption, 0|2 reply bytes per call, done or not): 0..24 bytes handed over by the previous request; reader: 1 byte then EOF/error, <= 1 Pending; writer: <= 1 short write, <= 1 Pending; polled up to 3 times
// @functions Token::parse_request, AsyncReadExt::read, AsyncWriteExt::write_all, request::Parser::input_buffer
#[kani::proof]
#[kani::unwind(10)]
#[kani::stub(std::hash::RandomState::new, fixed_random_state)]
#[kani::stub(request::Parser::parse, crate::parser::request::verif_kani::rparse_contract)]
fn c08_glue_parse_request() {
    use crate::parser::request::verif_kani as rv;
    let cfg = sv::cfg1();
    let buf: [u8; sv::B] = kani::any();
    let handed: usize = kani::any();
    kani::assume(handed <= sv::B);
    let parser = rv::mk_header_parser(&cfg, buf, handed);
    let mut r = CountR::new(1, 1);
    r.fail = if kani::any() { 1 } else { 0 };
    let mut w = CountW::new(1, 1);
    let rp: *const CountR = &r;
    let wp: *const CountW = &w;
    let mut fut = std::mem::ManuallyDrop::new(Token::parse_request(parser, &mut r, &mut w));
    let mut polls = 0;
    loop {
        polls += 1;
        assert!(polls <= 3, "parse_request must make progress");
        let pinned = unsafe { Pin::new_unchecked(&mut *fut) };
        match poll_once(pinned) {
            Poll::Ready(res) => {
                match &res {
                    Ok(_) => { let rr = unsafe { &*rp }; assert!(!rr.said_eof && !rr.said_err, "C12: a request was handed out although the transport ended / failed before the parser finished"); kani::cover!(true, "preamble complete"); }
                    Err(e) => {
                        let rr = unsafe { &*rp };
                        if rr.said_eof { assert!(e.kind() == io::ErrorKind::ConnectionReset, "C12: EOF before a complete preamble must end the connection quietly (ConnectionReset)"); }
                        if rr.said_err { assert!(e.kind() == io::ErrorKind::BrokenPipe, "C12: the transport's read error must be passed on"); }
                        kani::cover!(e.kind() == io::ErrorKind::ConnectionReset, "EOF before a complete preamble: connection closed quietly");
                    }
                }
                let (rr, ww) = unsafe { (&*rp, &*wp) };
                if res.is_ok() || !ww.failed { assert!(ww.len <= unsafe { rv::GR_OUT_TOTAL }); }
                let _ = rr;
                std::mem::forget(res);
                break;
            }
            Poll::Pending => {
                let (rr, ww) = unsafe { (&*rp, &*wp) };
                if rr.last_pending {
                    // suspended waiting for the client
                    assert!(unsafe { rv::GR_PARSE_CALLS } >= 1, "C08:buffered-record-unprocessed-at-read-pending: parse_request waits for client input before parsing the bytes handed over by the previous request");
                    assert!(unsafe { rv::GR_FED } == rr.pos, "C08: bytes read from the transport were not handed to the parser before waiting again");
                    assert!(ww.len == unsafe { rv::GR_OUT_TOTAL }, "C08:reply-not-on-transport-at-read-pending");
                    kani::cover!(unsafe { rv::GR_OUT_TOTAL } >= 2, "waiting for input with a reply already written");
                    kani::cover!(handed > 0 && rr.pos == 0, "first wait, handed-over bytes already parsed");
                } else {
                    kani::cover!(true, "suspended on the writer");
                }
            }
        }
    }
}


// ------------------------------------------------------------------------------------------------ C11 / C07: close() of a request that is not writeable yet, poll_input replaced by its contract
// What poll_input really does is the subject of the c09_glue_* harnesses; here it is any of: Ok (final stream reached,
// request now writeable), ConnectionAborted (the client aborted the request), another error, or Pending once.
pub(crate) static mut GPI_CALLS: usize = 0;
pub(crate) static mut GPI_PEND: usize = 0;
pub(crate) static mut GPI_RESULT: u8 = 0;      // 1 = Ok, 2 = ConnectionAborted, 3 = other error
pub(crate) fn poll_input_contract<'a, R: AsyncRead + Unpin, W: AsyncWrite + Unpin>(this: Pin<&mut Request<'a, R, W>>, _cx: &mut Context<'_>, dest: Option<&mut [u8]>) -> Poll<io::Result<usize>> where 'a: 'a {
    assert!(dest.is_none(), "close() must not read stream data into a caller buffer");
    let this = this.get_mut();
    unsafe {
        GPI_CALLS += 1;
        assert!(GPI_RESULT == 0, "poll_input polled again after it completed");
        if GPI_PEND > 0 && kani::any() { GPI_PEND -= 1; return Poll::Pending; }
        let m: u8 = kani::any();
        kani::assume(1 <= m && m <= 3);
        GPI_RESULT = m;
        match m {
            1 => { this.writeable = true; Poll::Ready(Ok(0)) }
            2 => Poll::Ready(Err(io::ErrorKind::ConnectionAborted.into())),
            _ => Poll::Ready(Err(io::ErrorKind::InvalidData.into())),
        }
    }
}

// @harness name=c11_close_not_writeable props=C11,C07,C17 tier=quick timeout=2400 rmbody=ioerr,nogrow,nonv,nowaiters,nodropreq,noparse mem=30 dead=1 unwindset=WriteAll<.*>.as.futures_util::Future>::poll$:3;drop_glue::<.slab::Entry<.*>.>$:2
// @bound Request::close(status) for a request that is NOT yet writeable (handler returned before its last input stream ended), at a record boundary, KeepConn set; poll_input replaced by its contract (Ok / ConnectionAborted / other error; no Pending: one poll); ExitStatus Overloaded or Complete(any code, incl. 'ABRT'); writer counting, accepts everything at once
// @functions Request::close, Request::writeable, make_request_epilogue, stream::Parser::{set_stream,into_request_parser}
#[kani::proof]
#[kani::unwind(6)]
#[kani::stub(std::hash::RandomState::new, fixed_random_state)]
#[kani::stub(Request::poll_input, poll_input_contract)]
#[kani::stub(alloc::fmt::format, crate::verif_kani::fmt_format_stub)]
fn c11_close_not_writeable() {
    let cfg = sv::cfg1();
    unsafe { GPI_CALLS = 0; GPI_PEND = 0; GPI_RESULT = 0; }
    let raw = [0u8; sv::B];
    let mut parser = sv::mk_code(&cfg, raw, (0, 0, 0, 0), 1, fcgi::Role::Responder, 7, Some(fcgi::RecordType::Stdin), 0, 0, Vec::with_capacity(32), 0);
    parser.request.flags = fcgi::RequestFlags::from(1);
    let req = Request { parser, input: CountR::new(0, 0), output: Arc::new(Mutex::new(CountW::new(0, 0))), lock: None, writeable: false };
    let status = if kani::any() { ExitStatus::Overloaded } else { ExitStatus::Complete(kani::any()) };
    let mut fut = std::mem::ManuallyDrop::new(req.close(status));
    let mut polls = 0;
    let res = loop {
        polls += 1;
        assert!(polls <= 1, "close() must make progress");
        let pinned = unsafe { Pin::new_unchecked(&mut *fut) };
        match poll_once(pinned) { Poll::Ready(r) => break r, Poll::Pending => { kani::cover!(true, "close() suspended while waiting for the final stream"); } }
    };
    let m = unsafe { GPI_RESULT };
    match res {
        Ok((rp, _r, w)) => {
            assert!(m != 3, "C12: close() succeeded although reading the input failed with a non-abort error");
            // an aborted request gets its EndRequest (16 bytes) without stream ends; a writeable one also the two empty stream records
            assert!(w.len == if m == 1 { 32 } else { 16 }, "C07/C11: wrong number of epilogue bytes for the request");
            kani::cover!(m == 2, "C11: client abort seen by close() is tolerated, EndRequest still sent, connection reusable");
            kani::cover!(m == 1, "final stream reached inside close()");
            std::mem::forget(rp); std::mem::forget(w);
        }
        Err(e) => {
            assert!(m == 3, "C11: close() failed (no EndRequest, connection dropped) although the only irregularity was a client abort - or none");
            assert!(e.kind() == io::ErrorKind::InvalidData, "the input error must be passed on");
            std::mem::forget(e);
            kani::cover!(true, "other input errors end the connection");
        }
    }
}

// ------------------------------------------------------------------------------------------------ C08 / C11 / C12: record_boundary (draining unread input) on its own

// @harness name=c08_glue_record_boundary props=C08,C11,C12 tier=manual timeout=1800 rmbody=ioerr,nogrow,nowaiters,nodropreq mem=30 unwindset=Request::<'_,.*>::record_boundary::.closure.0.$:3;Request::<'_,.*>::poll_output$:3;drop_glue::<.slab::Entry<.*>.>$:2
// @bound Request::record_boundary in the middle of an unread record (payload_rem = 1, active stream None) against the parser contract (any consumption, replies, boundary reached or not, <= 1 error: AbortRequest or a fatal one); reader: no more bytes (EOF) after <= 1 Pending; writer counting, whole writes, <= 1 Pending; polled up to 3 times
// @functions Request::record_boundary, Request::poll_output
#[kani::proof]
#[kani::unwind(6)]
#[kani::stub(std::hash::RandomState::new, fixed_random_state)]
#[kani::stub(stream::Parser::parse, sv::parse_contract)]
#[kani::stub(stream::Parser::compress, sv::compress_contract)]
fn c08_glue_record_boundary() { rb_case(0, 0, 1, 1, 3); }

// @harness name=c08_rb_pending props=C08,C11,C12,C07 tier=quick timeout=2400 rmbody=ioerr,nogrow,nowaiters,nodropreq mem=30 unwindset=Request::<'_,.*>::record_boundary::.closure.0.$:3;Request::<'_,.*>::poll_output$:3;drop_glue::<.slab::Entry<.*>.>$:2 dead=1
// @bound ONE poll of Request::record_boundary (the draining step of close()) in the middle of an unread record (payload_rem = 1, active stream None) against the parser contract (any consumption, 0|2 reply bytes per call, boundary reached or not, <= 1 error: AbortRequest or a fatal one); reader: <= 1 Pending, one byte, then EOF; writer: <= 1 Pending, whole writes. Checked at the first suspension and at completion; the resumption after a Pending is not polled
// @functions Request::record_boundary, Request::poll_output
#[kani::proof]
#[kani::unwind(6)]
#[kani::stub(std::hash::RandomState::new, fixed_random_state)]
#[kani::stub(stream::Parser::parse, sv::parse_contract)]
#[kani::stub(stream::Parser::compress, sv::compress_contract)]
fn c08_rb_pending() { rb_case(1, 0, 1, 1, 1); }

// @harness name=c07_rb_two_reads props=C07 tier=quick timeout=2400 rmbody=ioerr,nogrow,nowaiters,nodropreq mem=30 unwindset=Request::<'_,.*>::record_boundary::.closure.0.$:4;Request::<'_,.*>::poll_output$:3;drop_glue::<.slab::Entry<.*>.>$:2 dead=2
// @bound Request::record_boundary draining a long unread body: the transport delivers two reads of any size 1..24 (the first may fill the whole 24-byte buffer), EOF at the third call; no Pending on either side (one poll); parser contract as above. The transport must never be offered an empty buffer while the parser has reclaimable space (a 0-byte answer would be taken for end of file)
// @functions Request::record_boundary, stream::Parser::{compress,input_buffer} (geometry), Request::poll_output
#[kani::proof]
#[kani::unwind(6)]
#[kani::stub(std::hash::RandomState::new, fixed_random_state)]
#[kani::stub(stream::Parser::parse, sv::parse_contract)]
#[kani::stub(stream::Parser::compress, sv::compress_contract)]
fn c07_rb_two_reads() { rb_case(48, 3, 0, 0, 1); }

fn rb_case(avail: usize, max_calls: usize, r_pend: usize, w_pend: usize, max_polls: usize) {
    let cfg = sv::cfg1();
    unsafe { sv::GS_ERR_BUDGET = 1; sv::GS_OUT_TOTAL = 0; }
    let raw = [0u8; sv::B];
    let parser = sv::mk_code(&cfg, raw, (0, 0, 0, 0), 1, fcgi::Role::Responder, 7, None, 1, 0, Vec::with_capacity(32), 0);
    let mut r = CountR::new(avail, r_pend);
    r.max_calls = max_calls;
    let mut req = Request { parser, input: r, output: Arc::new(Mutex::new(CountW::new(w_pend, 0))), lock: None, writeable: true };
    let rp: *const CountR = &req.input;
    let wp: *const Mutex<CountW> = Arc::as_ptr(&req.output);
    let pp: *const stream::Parser<'_> = &req.parser;
    let mut polls = 0;
    {
        let mut fut = std::mem::ManuallyDrop::new(req.record_boundary());
        loop {
            polls += 1;
            assert!(polls <= max_polls, "record_boundary must make progress");
            let pinned = unsafe { Pin::new_unchecked(&mut *fut) };
            match poll_once(pinned) {
                Poll::Pending => {
                    let rr = unsafe { &*rp };
                    if rr.last_pending {
                        let g = unsafe { (*wp).try_lock() }.expect("output lock must be free while waiting for input");
                        assert!(g.len == unsafe { sv::GS_OUT_TOTAL }, "C08:reply-owed-at-read-pending: record_boundary waits for the rest of a record while replies are unsent");
                        assert!(unsafe { sv::GS_FED } == rr.pos, "C08: bytes read from the transport were not handed to the parser before waiting again");
                        kani::cover!(unsafe { sv::GS_OUT_TOTAL } > 0, "draining: reply flushed before waiting");
                        std::mem::forget(g);
                    } else { kani::cover!(true, "suspended on the writer"); }
                    if polls == max_polls { break; }      // single-poll instances stop at the first suspension
                }
                Poll::Ready(res) => {
                    let (aborts, fatals) = unsafe { sv::GS_ERRS };
                    let rr = unsafe { &*rp };
                    assert!(rr.empty_reads == 0 || unsafe { sv::GS_UNCONSUMED } == sv::B, "C07/C12: while draining, the transport was offered an empty buffer (its 0-byte answer is taken for end of file) although the parser's buffer has reclaimable space");
                    match &res {
                        Ok(()) => {
                            assert!(unsafe { (*pp).is_record_boundary() }, "record_boundary returned Ok off a record boundary");
                            assert!(fatals == 0, "C12: record_boundary succeeded although the parser reported a fatal error");
                            kani::cover!(aborts == 1, "C11: an abort seen while draining is tolerated");
                            kani::cover!(rr.calls == 2, "boundary reached after two reads");
                        }
                        Err(e) => {
                            assert!(fatals == 1 || rr.said_eof || rr.said_err || rr.empty_reads > 0, "C11: draining failed although the only irregularity was a client abort (or none)");
                            if rr.said_eof && fatals == 0 { assert!(e.kind() == io::ErrorKind::UnexpectedEof, "C12: EOF while draining must surface as UnexpectedEof"); }
                            if fatals == 1 && !rr.said_eof && !rr.said_err && rr.empty_reads == 0 { assert!(e.kind() == io::ErrorKind::InvalidData, "C12: a fatal protocol error must surface as InvalidData"); }
                            kani::cover!(rr.said_eof, "EOF while draining");
                        }
                    }
                    std::mem::forget(res);
                    break;
                }
            }
        }
    }
    std::mem::forget(req);
}


