// Harnesses for src/cgi/mod.rs (C19: VarName / OwnedVarName laws, constructors).
use super::*;
use crate::verif_kani::ensure_read_id;


/// Recording hasher: the exact sequence of write() calls (lengths and bytes).
struct Rec { buf: [u8; 48], len: usize, calls: usize, lens: [usize; 4] }
impl Rec { fn new() -> Self { Rec { buf: [0; 48], len: 0, calls: 0, lens: [0; 4] } } }
impl Hasher for Rec {
    fn finish(&self) -> u64 { 0 }
    fn write(&mut self, bytes: &[u8]) {
        let mut i = 0;
        while i < bytes.len() { self.buf[self.len + i] = bytes[i]; i += 1; }
        self.len += bytes.len();
        self.lens[self.calls] = bytes.len();
        self.calls += 1;
    }
}
fn same_rec(a: &Rec, b: &Rec) -> bool {
    if a.len != b.len || a.calls != b.calls { return false; }
    let mut i = 0; while i < a.calls { if a.lens[i] != b.lens[i] { return false; } i += 1; }
    let mut i = 0; while i < a.len { if a.buf[i] != b.buf[i] { return false; } i += 1; }
    true
}

fn up(b: u8) -> u8 { if b >= b'a' && b <= b'z' { b - 32 } else { b } }

/// A symbolic valid-UTF-8 string of <= L bytes: ASCII everywhere except an optional 2-byte scalar at position k.
fn any_str<const L: usize>(store: &mut [u8; L]) -> usize {
    let n: usize = kani::any();
    kani::assume(n <= L);
    let k: usize = kani::any();     // k >= n: pure ASCII
    kani::assume(k <= L);
    let mut i = 0;
    while i < L {
        if i == k && i + 1 < n { kani::assume(store[i] >= 0xC2 && store[i] <= 0xDF); }
        else if i == k + 1 && i < n && k + 1 < n { kani::assume(store[i] >= 0x80 && store[i] <= 0xBF); }
        else { kani::assume(store[i] < 0x80); }
        i += 1;
    }
    n
}

fn ref_eq(a: &[u8], b: &[u8]) -> bool {
    if a.len() != b.len() { return false; }
    let mut i = 0; while i < a.len() { if up(a[i]) != up(b[i]) { return false; } i += 1; }
    true
}
fn ref_ord(a: &[u8], b: &[u8]) -> std::cmp::Ordering {
    let mut i = 0;
    while i < a.len() && i < b.len() {
        let (x, y) = (up(a[i]), up(b[i]));
        if x < y { return std::cmp::Ordering::Less; }
        if x > y { return std::cmp::Ordering::Greater; }
        i += 1;
    }
    a.len().cmp(&b.len())
}

fn varname_case<const L: usize>() {
    let mut sa: [u8; L] = kani::any();
    let mut sb: [u8; L] = kani::any();
    let na = any_str(&mut sa);
    let nb = any_str(&mut sb);
    let (a, b) = (&sa[..na], &sb[..nb]);
    let (va, vb) = unsafe { (VarName::new(str::from_utf8_unchecked(a)), VarName::new(str::from_utf8_unchecked(b))) };
    let e = ref_eq(a, b);
    assert!((va == vb) == e, "VarName equality differs from equality ignoring ASCII case");
    let o = ref_ord(a, b);
    assert!(va.cmp(vb) == o, "VarName order differs from the lexicographic order of the ASCII-uppercased bytes");
    assert!(va.partial_cmp(vb) == Some(o));
    assert!((o == std::cmp::Ordering::Equal) == e, "cmp == Equal must coincide with ==");
    assert!(vb.cmp(va) == o.reverse(), "order not antisymmetric");
    let (mut ha, mut hb) = (Rec::new(), Rec::new());
    va.hash(&mut ha);
    vb.hash(&mut hb);
    if e { assert!(same_rec(&ha, &hb), "equal names feed different data to the hasher"); }
    // (unequal names MAY collide: the property only requires equal => identical hash input)
    if L >= 18 {
        kani::cover!(e && na == 18 && sa[17] != sb[17], "equal, 18 bytes, differing only in case beyond the 16-byte chunk");
        kani::cover!(!e && na == 16 && nb == 17, "prefix across the chunk boundary");
        kani::cover!(!e && na == nb && na == 16, "same length, exactly one chunk, different");
    }
    kani::cover!(!e && nb == na + 1 && nb >= 2 && sb[na] == 0, "same name plus a trailing NUL byte");
    kani::cover!(e && na > 2 && sa[1] >= 0xC2, "equal with a non-ASCII scalar");
    kani::cover!(na == 0 && nb == 0, "both empty");
}

// @harness name=c19_varname_laws props=C19 tier=quick timeout=1500 mem=24
// @bound two strings of 0..18 bytes each (ASCII incl. NUL plus one optional 2-byte UTF-8 scalar at any position): eq, cmp, hash against a byte-wise reference; arbitrary hasher = recorded write sequence
// @functions VarName::eq, VarName::cmp, VarName::partial_cmp, VarName::hash, VarName::new
#[kani::proof]
#[kani::unwind(20)]
fn c19_varname_laws() { varname_case::<18>(); }

// @harness name=c19_varname_laws_short props=C19 tier=quick timeout=900 dead=3
// @bound as c19_varname_laws with strings of 0..4 bytes (cheap instance: decides quickly even when the implementation under test is slow to encode)
// @functions VarName::eq, VarName::cmp, VarName::partial_cmp, VarName::hash
#[kani::proof]
#[kani::unwind(20)]
fn c19_varname_laws_short() { varname_case::<4>(); }

// @harness name=c19_owned_repr props=C19,C01 tier=manual timeout=7000 mem=24
// @bound interned names {IPV6, HTTP2, AUTH_TYPE, PATH_INFO} (symbolic choice) vs. a custom string of the same letters in a symbolic case pattern, and vs. another interned name: eq / cmp / hash agree with the borrowed view in all representation combinations
// @functions OwnedVarName::{eq, cmp, hash, as_ref, borrow}, From<StaticVarName>, StaticVarName::cmp
#[kani::proof]
#[kani::unwind(20)]
#[kani::stub(compact_str::repr::ensure_read, ensure_read_id)]
fn c19_owned_repr() {
    let names = [IPV6, HTTP2, AUTH_TYPE, PATH_INFO];
    let i: usize = kani::any(); kani::assume(i < 4);
    let j: usize = kani::any(); kani::assume(j < 4);
    let si = OwnedVarName::from(names[i]);
    let sj = OwnedVarName::from(names[j]);
    let text: &str = names[i].as_ref();
    assert!(si.as_ref() == text, "interned name does not read back as its canonical spelling");
    // same letters, symbolic case pattern, stored as Custom
    let mask: u16 = kani::any();
    let mut cs = CompactString::const_new("");
    let tb = text.as_bytes();
    let mut k = 0;
    while k < tb.len() {
        let c = if mask & (1 << k) != 0 { tb[k].to_ascii_lowercase() } else { tb[k] };
        cs.push(c as char);
        k += 1;
    }
    let cu = OwnedVarName(VarNameInner::Custom(cs));
    assert!(si == cu && cu == si, "interned and custom representations of the same name compare unequal");
    assert!(si.cmp(&cu) == std::cmp::Ordering::Equal && cu.cmp(&si) == std::cmp::Ordering::Equal);
    let (mut h1, mut h2, mut h3) = (Rec::new(), Rec::new(), Rec::new());
    si.hash(&mut h1); cu.hash(&mut h2);
    let bv: &VarName = si.borrow();
    bv.hash(&mut h3);
    assert!(same_rec(&h1, &h2), "equal names in different representations hash differently");
    assert!(same_rec(&h1, &h3), "Borrow<VarName> is not hash-compatible");
    // two interned names: fast path agrees with the string view
    let text_j: &str = names[j].as_ref();
    assert!((si == sj) == (i == j), "distinct interned names compare equal");
    assert!(si.cmp(&sj) == ref_ord(text.as_bytes(), text_j.as_bytes()), "order of interned names differs from the order of their spellings");
    assert!(cu.cmp(&sj) == ref_ord(text.as_bytes(), text_j.as_bytes()), "mixed-representation order differs from the order of the spellings");
    kani::cover!(mask & 0x1ff == 0x1ff && i == 2, "all lower case spelling of AUTH_TYPE");
    kani::cover!(i != j, "two different interned names");
    std::mem::forget(cu);
}

// @harness name=c19_constructors props=C19,C01 tier=manual timeout=7000 mem=24
// @bound strings of 0..3 symbolic ASCII bytes (too short to be interned): From<&str> keeps the spelling, from_mut_str / From<String> / From<Box<str>> / From<Cow> / from_compact yield the ASCII-uppercased string; ToOwned round trip
// @functions OwnedVarName::{from_mut_str, from_compact}, From<&str>, From<String>, From<Box<str>>, From<Cow<str>>, From<&VarName>, ToOwned for VarName, StaticVarName::from_str (phf)
#[kani::proof]
#[kani::unwind(20)]
#[kani::stub(compact_str::repr::ensure_read, ensure_read_id)]
fn c19_constructors() {
    let mut s: [u8; 3] = kani::any();
    let n: usize = kani::any();
    kani::assume(n <= 3);
    kani::assume(s[0] < 0x80 && s[1] < 0x80 && s[2] < 0x80);
    let orig = s;
    let text = unsafe { str::from_utf8_unchecked(&orig[..n]) };
    let which: u8 = kani::any();
    kani::assume(which < 5);
    let (o, upper) = match which {
        0 => (OwnedVarName::from(text), false),
        1 => (OwnedVarName::from_mut_str(unsafe { str::from_utf8_unchecked_mut(&mut s[..n]) }), true),
        2 => (OwnedVarName::from_compact(CompactString::from(text)), true),
        3 => (OwnedVarName::from(Cow::Borrowed(text)), false),
        _ => (VarName::new(text).to_owned(), false),
    };
    let got = o.as_ref().as_bytes();
    assert!(got.len() == n, "constructor changed the length");
    let mut i = 0;
    while i < n {
        let want = if upper { up(orig[i]) } else { orig[i] };
        assert!(got[i] == want, "constructor produced a wrong spelling");
        i += 1;
    }
    assert!(matches!(o.0, VarNameInner::Custom(_)), "a name shorter than every interned name was interned");
    let v: &VarName = o.borrow();
    assert!(v == VarName::new(text), "owned name not equal to the source string ignoring case");
    kani::cover!(which == 1 && n == 3 && orig[0] >= b'a' && orig[0] <= b'z', "from_mut_str uppercases");
    kani::cover!(n == 0, "empty string");
    std::mem::forget(o);
}

// @harness name=c19_owned_repr_auth_type props=C19,C01 tier=quick timeout=1500
// @bound interned AUTH_TYPE vs. a custom string of the same letters in EVERY case pattern (2^9) and vs. interned PATH_INFO: eq / cmp / hash agree across representations
// @functions OwnedVarName::{eq, cmp, hash, as_ref, borrow}, From<StaticVarName>
#[kani::proof]
#[kani::unwind(20)]
#[kani::stub(compact_str::repr::ensure_read, ensure_read_id)]
fn c19_owned_repr_auth_type() {
    let si = OwnedVarName::from(AUTH_TYPE);
    let sj = OwnedVarName::from(PATH_INFO);
    let tb = *b"AUTH_TYPE";
    assert!(si.as_ref().as_bytes() == tb, "interned name does not read back as its canonical spelling");
    let mask: u16 = kani::any();
    let mut low = tb;
    let mut k = 0;
    while k < 9 { if mask & (1 << k) != 0 { low[k] = low[k].to_ascii_lowercase(); } k += 1; }
    let cu = OwnedVarName(VarNameInner::Custom(CompactString::new(unsafe { str::from_utf8_unchecked(&low) })));
    assert!(si == cu && cu == si, "interned and custom representations of the same name compare unequal");
    assert!(si.cmp(&cu) == std::cmp::Ordering::Equal && cu.cmp(&si) == std::cmp::Ordering::Equal);
    let (mut h1, mut h2, mut h3) = (Rec::new(), Rec::new(), Rec::new());
    si.hash(&mut h1); cu.hash(&mut h2);
    let bv: &VarName = si.borrow();
    bv.hash(&mut h3);
    assert!(same_rec(&h1, &h2), "equal names in different representations hash differently");
    assert!(same_rec(&h1, &h3), "Borrow<VarName> is not hash-compatible");
    assert!(si != sj && cu != sj);
    assert!(si.cmp(&sj) == std::cmp::Ordering::Less && cu.cmp(&sj) == std::cmp::Ordering::Less && sj.cmp(&cu) == std::cmp::Ordering::Greater,
            "order across representations differs from the order of the spellings");
    kani::cover!(mask & 0x1ff == 0x1ff, "all lower case");
    kani::cover!(mask & 0x1ff == 0x010, "only the underscore position 'lowered' (no change)");
    std::mem::forget(cu);
}


// @harness name=c19_constructors_concrete props=C19,C01 tier=quick timeout=900
// @bound concrete spellings (the symbolic-string version c19_constructors runs out of memory in phf's SipHash): a custom name, an interned name in mixed case, the empty string; every constructor; results compared with the ASCII-uppercased / verbatim spelling and with the interned variant
// @functions OwnedVarName::{from_mut_str, from_compact}, From<&str>, From<String>, From<Box<str>>, From<Cow<str>>, From<&VarName>, From<StaticVarName>, ToOwned for VarName, StaticVarName::from_str (phf)
#[kani::proof]
#[kani::unwind(20)]
#[kani::stub(compact_str::repr::ensure_read, ensure_read_id)]
fn c19_constructors_concrete() {
    // normalising constructors: interned when the upper-cased spelling is a known name
    let mut m = *b"Auth_tYpe";
    let o = OwnedVarName::from_mut_str(unsafe { str::from_utf8_unchecked_mut(&mut m) });
    assert!(matches!(o.0, VarNameInner::Static(AUTH_TYPE)) && o.as_ref() == "AUTH_TYPE", "from_mut_str must normalise and intern");
    let o = OwnedVarName::from_compact(CompactString::new("http_x_custom"));
    assert!(matches!(o.0, VarNameInner::Custom(_)) && o.as_ref() == "HTTP_X_CUSTOM", "from_compact must upper-case custom names");
    let o = OwnedVarName::from(String::from("path_info"));
    assert!(matches!(o.0, VarNameInner::Static(PATH_INFO)), "From<String> must normalise and intern");
    let o = OwnedVarName::from(Cow::Owned(String::from("ipv6")));
    assert!(matches!(o.0, VarNameInner::Static(IPV6)), "From<Cow::Owned> must normalise and intern");
    // non-normalising constructors keep the spelling (and intern only exact canonical spellings)
    let o = OwnedVarName::from("Http2");
    assert!(matches!(o.0, VarNameInner::Custom(_)) && o.as_ref() == "Http2", "From<&str> must keep the spelling");
    { let bv: &VarName = o.borrow(); assert!(bv == VarName::new("HTTP2") && o == OwnedVarName::from(HTTP2), "differently spelled names must still compare equal"); }
    let o = OwnedVarName::from("HTTP2");
    assert!(matches!(o.0, VarNameInner::Static(HTTP2)), "canonical spelling must be interned");
    let o = OwnedVarName::from(Cow::Borrowed("x"));
    assert!(o.as_ref() == "x");
    let o = VarName::new("").to_owned();
    assert!(o.as_ref().is_empty() && matches!(o.0, VarNameInner::Custom(_)), "empty name");
    let o = OwnedVarName::from(AUTH_TYPE);
    let v: &VarName = o.borrow();
    assert!(v == VarName::new("auth_type"));
    kani::cover!(true, "reached");
}
