// Harnesses for src/cgi/response.rs (C20).
use super::*;

const CAP: usize = 64;

fn push(r: &mut [u8; CAP], n: &mut usize, s: &[u8]) { let mut i = 0; while i < s.len() { r[*n] = s[i]; *n += 1; i += 1; } }

// @harness name=c20_simple_redirect props=C20 tier=quick timeout=900 rmbody=ioerr
// @bound location of 0..6 symbolic bytes (valid UTF-8: ASCII), destination &mut [u8] of every capacity 0..24
// @functions cgi::response::simple_redirect
#[kani::proof]
#[kani::unwind(20)]
fn c20_simple_redirect() {
    let loc: [u8; 6] = kani::any();
    let ll: usize = kani::any();
    kani::assume(ll <= 6);
    let mut i = 0; while i < 6 { kani::assume(loc[i] < 0x80); i += 1; }
    let cap: usize = kani::any();
    kani::assume(cap <= 24);
    let mut out = [0xEEu8; 24];
    let res = { let mut w: &mut [u8] = &mut out[..cap]; simple_redirect(&mut w, unsafe { std::str::from_utf8_unchecked(&loc[..ll]) }) };
    let mut exp = [0u8; CAP]; let mut en = 0;
    push(&mut exp, &mut en, b"Location: "); push(&mut exp, &mut en, &loc[..ll]); push(&mut exp, &mut en, b"\n\n");
    match res {
        Ok(n) => {
            assert!(cap >= en, "reported success although the destination is too small");
            assert!(n == en, "returned byte count differs from the bytes of the documented grammar");
            let mut i = 0; while i < en { assert!(out[i] == exp[i], "output differs from `Location: <loc>\\n\\n`"); i += 1; }
            let j: usize = kani::any();
            if j >= en && j < 24 { assert!(out[j] == 0xEE, "wrote beyond the reported count"); }
            kani::cover!(ll == 0, "empty location");
            kani::cover!(cap == en, "exact fit");
        }
        Err(e) => { assert!(cap < en, "failed although the destination is large enough"); std::mem::forget(e); kani::cover!(cap + 1 == en, "one byte short"); }
    }
}

fn headers_case(code: u16, nh: usize) {
    let status = http::StatusCode::from_u16(code).unwrap();
    let (n1, v1, n2, v2): ([u8; 3], [u8; 3], [u8; 3], [u8; 3]) = (kani::any(), kani::any(), kani::any(), kani::any());
    let (a, b, c, d): (usize, usize, usize, usize) = (kani::any(), kani::any(), kani::any(), kani::any());
    kani::assume(a <= 3 && b <= 3 && c <= 3 && d <= 3);
    // documented precondition: the reserved name `Status` must not be used (6 bytes: cannot occur with <= 3)
    let cap: usize = kani::any();
    kani::assume(cap <= CAP);
    let mut out = [0xEEu8; CAP];
    let hs: [(&[u8], &[u8]); 2] = [(&n1[..a], &v1[..b]), (&n2[..c], &v2[..d])];
    let res = { let mut w: &mut [u8] = &mut out[..cap]; write_headers(&mut w, status, hs[..nh].iter().copied()) };
    let mut exp = [0u8; CAP]; let mut en = 0;
    push(&mut exp, &mut en, b"Status: ");
    let digits = [b'0' + (code / 100) as u8, b'0' + (code / 10 % 10) as u8, b'0' + (code % 10) as u8];
    push(&mut exp, &mut en, &digits); push(&mut exp, &mut en, b" ");
    let reason: &[u8] = match status.canonical_reason() { Some(r) => r.as_bytes(), None => b"Custom" };
    push(&mut exp, &mut en, reason);
    let mut k = 0;
    while k < nh { push(&mut exp, &mut en, b"\n"); push(&mut exp, &mut en, hs[k].0); push(&mut exp, &mut en, b": "); push(&mut exp, &mut en, hs[k].1); k += 1; }
    push(&mut exp, &mut en, b"\n\n");
    match res {
        Ok(n) => {
            assert!(cap >= en, "reported success although the destination is too small");
            assert!(n == en, "returned byte count differs from the bytes of the documented grammar");
            let mut i = 0; while i < en { assert!(out[i] == exp[i], "output differs from the documented header grammar"); i += 1; }
            kani::cover!(cap == en, "exact fit");
            kani::cover!(nh == 0 || (a == 0 && b == 0), "no header / empty name and value");
        }
        Err(e) => { assert!(cap < en, "failed although the destination is large enough"); std::mem::forget(e); kani::cover!(cap + 1 == en, "one byte short"); }
    }
}

// @harness name=c20_headers_200_two props=C20 tier=quick timeout=2400 rmbody=ioerr
// @bound status 200 (canonical reason), two headers with names/values of 0..3 symbolic bytes, destination capacity 0..64
// @functions cgi::response::write_headers
#[kani::proof]
#[kani::unwind(66)]
fn c20_headers_200_two() { headers_case(200, 2); }

// @harness name=c20_headers_custom_one props=C20 tier=quick timeout=2400 rmbody=ioerr
// @bound status 999 (no canonical reason -> `Custom`), one header with name/value of 0..3 symbolic bytes, destination capacity 0..64
// @functions cgi::response::write_headers
#[kani::proof]
#[kani::unwind(66)]
fn c20_headers_custom_one() { headers_case(999, 1); }

// @harness name=c20_headers_404_none props=C20 tier=quick timeout=900 rmbody=ioerr
// @bound status 404, no headers, destination capacity 0..64
// @functions cgi::response::write_headers
#[kani::proof]
#[kani::unwind(66)]
fn c20_headers_404_none() { headers_case(404, 0); }

// @harness name=c20_status_line_all_codes props=C20 tier=quick timeout=900 rmbody=ioerr
// @bound every status code 100..=999 (symbolic), no headers, destination capacity 64: status digits and reason as http reports them
// @functions cgi::response::write_headers, http::StatusCode::{as_str, canonical_reason}
#[kani::proof]
#[kani::unwind(66)]
fn c20_status_line_all_codes() {
    let code: u16 = kani::any();
    kani::assume(100 <= code && code <= 999);
    let status = http::StatusCode::from_u16(code).unwrap();
    let mut out = [0xEEu8; CAP];
    let res = { let mut w: &mut [u8] = &mut out[..]; write_headers(&mut w, status, std::iter::empty()) };
    let n = match res { Ok(n) => n, Err(e) => { std::mem::forget(e); panic!("64 bytes must suffice for a status line") } };
    assert!(out[0] == b'S' && out[7] == b' ');
    assert!(out[8] == b'0' + (code / 100) as u8 && out[9] == b'0' + (code / 10 % 10) as u8 && out[10] == b'0' + (code % 10) as u8 && out[11] == b' ', "status digits wrong");
    let rl = match status.canonical_reason() { Some(r) => r.len(), None => 6 };
    assert!(n == 12 + rl + 2 && out[n - 1] == b'\n' && out[n - 2] == b'\n', "byte count / terminator wrong");
    kani::cover!(status.canonical_reason().is_none(), "custom reason");
    kani::cover!(code == 418, "teapot");
}
