// Harnesses for src/cgi/response.rs (C20).
use super::*;

const CAP: usize = 64;

fn push(r: &mut [u8; CAP], n: &mut usize, s: &[u8]) { let mut i = 0; while i < s.len() { r[*n] = s[i]; *n += 1; i += 1; } }

// @harness name=c20_simple_redirect props=C20 tier=quick timeout=900 rmbody=ioerr
// @bound location of 0..6 symbolic bytes (valid UTF-8: ASCII), destination &mut [u8] of every capacity 0..24
// @functions cgi::response::simple_redirect
#[kani::proof]
#[kani::unwind(20)]
fn c20_simple_redirect() {
    let loc: [u8; 6] = kani::any();
    let ll: usize = kani::any();
    kani::assume(ll <= 6);
    let mut i = 0; while i < 6 { kani::assume(loc[i] < 0x80); i += 1; }
    let cap: usize = kani::any();
    kani::assume(cap <= 24);
    let mut out = [0xEEu8; 24];
    let res = { let mut w: &mut [u8] = &mut out[..cap]; simple_redirect(&mut w, unsafe { std::str::from_utf8_unchecked(&loc[..ll]) }) };
    let mut exp = [0u8; CAP]; let mut en = 0;
    push(&mut exp, &mut en, b"Location: "); push(&mut exp, &mut en, &loc[..ll]); push(&mut exp, &mut en, b"\n\n");
    match res {
        Ok(n) => {
            assert!(cap >= en, "reported success although the destination is too small");
            assert!(n == en, "returned byte count differs from the bytes of the documented grammar");
            let mut i = 0; while i < en { assert!(out[i] == exp[i], "output differs from `Location: <loc>\\n\\n`"); i += 1; }
            let j: usize = kani::any();
            if j >= en && j < 24 { assert!(out[j] == 0xEE, "wrote beyond the reported count"); }
            kani::cover!(ll == 0, "empty location");
            kani::cover!(cap == en, "exact fit");
        }
        Err(e) => { assert!(cap < en, "failed although the destination is large enough"); std::mem::forget(e); kani::cover!(cap + 1 == en, "one byte short"); }
    }
}

fn headers_case(code: u16, nh: usize) {
    let status = http::StatusCode::from_u16(code).unwrap();
    let (n1, v1, n2, v2): ([u8; 3], [u8; 3], [u8; 3], [u8; 3]) = (kani::any(), kani::any(), kani::any(), kani::any());
    let (a, b, c, d): (usize, usize, usize, usize) = (kani::any(), kani::any(), kani::any(), kani::any());
    kani::assume(a <= 3 && b <= 3 && c <= 3 && d <= 3);
    // documented precondition: the reserved name `Status` must not be used (6 bytes: cannot occur with <= 3)
    let cap: usize = kani::any();
    kani::assume(cap <= CAP);
    let mut out = [0xEEu8; CAP];
    let hs: [(&[u8], &[u8]); 2] = [(&n1[..a], &v1[..b]), (&n2[..c], &v2[..d])];
    let res = { let mut w: &mut [u8] = &mut out[..cap]; write_headers(&mut w, status, hs[..nh].iter().copied()) };
    let mut exp = [0u8; CAP]; let mut en = 0;
    push(&mut exp, &mut en, b"Status: ");
    let digits = [b'0' + (code / 100) as u8, b'0' + (code / 10 % 10) as u8, b'0' + (code % 10) as u8];
    push(&mut exp, &mut en, &digits); push(&mut exp, &mut en, b" ");
    let reason: &[u8] = match status.canonical_reason() { Some(r) => r.as_bytes(), None => b"Custom" };
    push(&mut exp, &mut en, reason);
    let mut k = 0;
    while k < nh { push(&mut exp, &mut en, b"\n"); push(&mut exp, &mut en, hs[k].0); push(&mut exp, &mut en, b": "); push(&mut exp, &mut en, hs[k].1); k += 1; }
    push(&mut exp, &mut en, b"\n\n");
    match res {
        Ok(n) => {
            assert!(cap >= en, "reported success although the destination is too small");
            assert!(n == en, "returned byte count differs from the bytes of the documented grammar");
            let mut i = 0; while i < en { assert!(out[i] == exp[i], "output differs from the documented header grammar"); i += 1; }
            kani::cover!(cap == en, "exact fit");
            kani::cover!(nh == 0 || (a == 0 && b == 0), "no header / empty name and value");
        }
        Err(e) => { assert!(cap < en, "failed although the destination is large enough"); std::mem::forget(e); kani::cover!(cap + 1 == en, "one byte short"); }
    }
}

// @harness name=c20_headers_200_two props=C20 tier=quick timeout=2400 rmbody=ioerr
// @bound status 200 (canonical reason), two headers with names/values of 0..3 symbolic bytes, destination capacity 0..64
// @functions cgi::response::write_headers
#[kani::proof]
#[kani::unwind(66)]
fn c20_headers_200_two() { headers_case(200, 2); }

// @harness name=c20_headers_custom_one props=C20 tier=quick timeout=2400 rmbody=ioerr
// @bound status 999 (no canonical reason -> `Custom`), one header with name/value of 0..3 symbolic bytes, destination capacity 0..64
// @functions cgi::response::write_headers
#[kani::proof]
#[kani::unwind(66)]
fn c20_headers_custom_one() { headers_case(999, 1); }

// @harness name=c20_headers_404_none props=C20 tier=quick timeout=900 rmbody=ioerr
// @bound status 404, no headers, destination capacity 0..64
// @functions cgi::response::write_headers
#[kani::proof]
#[kani::unwind(66)]
fn c20_headers_404_none() { headers_case(404, 0); }

// @harness name=c20_status_line_all_codes props=C20 tier=quick timeout=900 rmbody=ioerr
// @bound every status code 100..=999 (symbolic), no headers, destination capacity 64: status digits and reason as http reports them
// @functions cgi::response::write_headers, http::StatusCode::{as_str, canonical_reason}
#[kani::proof]
#[kani::unwind(66)]
fn c20_status_line_all_codes() {
    let code: u16 = kani::any();
    kani::assume(100 <= code && code <= 999);
    let status = http::StatusCode::from_u16(code).unwrap();
    let mut out = [0xEEu8; CAP];
    let res = { let mut w: &mut [u8] = &mut out[..]; write_headers(&mut w, status, std::iter::empty()) };
    let n = match res { Ok(n) => n, Err(e) => { std::mem::forget(e); panic!("64 bytes must suffice for a status line") } };
    assert!(out[0] == b'S' && out[7] == b' ');
    assert!(out[8] == b'0' + (code / 100) as u8 && out[9] == b'0' + (code / 10 % 10) as u8 && out[10] == b'0' + (code % 10) as u8 && out[11] == b' ', "status digits wrong");
    let rl = match status.canonical_reason() { Some(r) => r.len(), None => 6 };
    assert!(n == 12 + rl + 2 && out[n - 1] == b'\n' && out[n - 2] == b'\n', "byte count / terminator wrong");
    kani::cover!(status.canonical_reason().is_none(), "custom reason");
    kani::cover!(code == 418, "teapot");
}

/// Length-abstract destination: accepts bytes until `room` is used up (then a short write, then 0 => WriteZero),
/// counts what it accepted and remembers the byte that landed at the one watched offset `watch`.
struct Watch { room: usize, pos: usize, watch: usize, seen: Option<u8>, calls: usize }
impl std::io::Write for Watch {
    fn write(&mut self, buf: &[u8]) -> std::io::Result<usize> {
        let n = if buf.len() <= self.room { buf.len() } else { self.room };
        if self.watch >= self.pos && self.watch - self.pos < n { self.seen = Some(buf[self.watch - self.pos]); }
        self.pos += n; self.room -= n; self.calls += 1;
        Ok(n)
    }
    fn flush(&mut self) -> std::io::Result<()> { Ok(()) }
}

const LONG: usize = 320;

/// Byte `j` of the documented grammar for status 200 and the given header list (None: past the end).
fn grammar_at(j: usize, hs: &[(&[u8], &[u8])]) -> (Option<u8>, usize) {
    const HEAD: &[u8] = b"Status: 200 OK";
    let mut off = HEAD.len();
    let mut got = if j < off { Some(HEAD[j]) } else { None };
    let mut k = 0;
    while k < hs.len() {
        let (n, v) = hs[k];
        if j == off { got = Some(b'\n'); }
        off += 1;
        if j >= off && j - off < n.len() { got = Some(n[j - off]); }
        off += n.len();
        if j == off { got = Some(b':'); }
        if j == off + 1 { got = Some(b' '); }
        off += 2;
        if j >= off && j - off < v.len() { got = Some(v[j - off]); }
        off += v.len();
        k += 1;
    }
    if j == off || j == off + 1 { got = Some(b'\n'); }
    (got, off + 2)
}

// @harness name=c20_headers_long_lengths props=C20 tier=quick timeout=1200 rmbody=ioerr
// @bound status 200, two headers whose name and value are each 0..320 symbolic bytes (symbolic lengths: every line length 3..643, covering 8/16/32/64/128/256-byte boundaries), destination room 0..1400 (symbolic); oracle = returned count, total bytes accepted, and the byte at ONE symbolic offset (every offset, one per solver model) against the documented grammar; name != `status` (documented precondition) assumed as `len != 6 or first byte not s/S`
// @functions cgi::response::write_headers, std::io::Write::write_all (default method, over the harness writer)
#[kani::proof]
#[kani::unwind(8)]
fn c20_headers_long_lengths() {
    let (n1, v1, n2, v2): ([u8; LONG], [u8; LONG], [u8; LONG], [u8; LONG]) = (kani::any(), kani::any(), kani::any(), kani::any());
    let (a, b, c, d): (usize, usize, usize, usize) = (kani::any(), kani::any(), kani::any(), kani::any());
    kani::assume(a <= LONG && b <= LONG && c <= LONG && d <= LONG);
    kani::assume(a != 6 || (n1[0] != b's' && n1[0] != b'S'));
    kani::assume(c != 6 || (n2[0] != b's' && n2[0] != b'S'));
    let hs: [(&[u8], &[u8]); 2] = [(&n1[..a], &v1[..b]), (&n2[..c], &v2[..d])];
    let room: usize = kani::any();
    kani::assume(room <= 1400);
    let j: usize = kani::any();
    kani::assume(j <= 1400);
    let mut w = Watch { room, pos: 0, watch: j, seen: None, calls: 0 };
    let res = write_headers(&mut w, http::StatusCode::OK, hs.iter().copied());
    let (exp_j, en) = grammar_at(j, &hs);
    match res {
        Ok(n) => {
            assert!(room >= en, "reported success although the destination is too small");
            assert!(n == en, "returned byte count differs from the bytes of the documented grammar");
            assert!(w.pos == en, "bytes handed to the destination differ in number from the returned count");
            assert!(w.seen == exp_j, "byte at the watched offset differs from the documented header grammar");
            kani::cover!(room == en, "exact fit");
            kani::cover!(a + b == 255 && exp_j.is_some(), "256-byte boundary line");
            kani::cover!(a == LONG && b == LONG && c == LONG && d == LONG, "all maximal");
        }
        Err(e) => {
            assert!(room < en, "failed although the destination is large enough");
            if j < room { assert!(w.seen == exp_j, "bytes accepted before the failure differ from the documented grammar"); }
            std::mem::forget(e);
            kani::cover!(room + 1 == en, "one byte short");
        }
    }
}

// @harness name=c20_redirect_long_lengths props=C20 tier=quick timeout=900 rmbody=ioerr
// @bound location of 0..320 bytes (symbolic length; ASCII `a` everywhere except one symbolic ASCII byte at a symbolic position), destination room 0..400 (symbolic); oracle = returned count, bytes accepted, byte at one symbolic offset
// @functions cgi::response::simple_redirect, std::io::Write::write_all (default method, over the harness writer)
#[kani::proof]
#[kani::unwind(8)]
fn c20_redirect_long_lengths() {
    let mut loc = [b'a'; LONG];
    let (p, x): (usize, u8) = (kani::any(), kani::any());
    kani::assume(p < LONG && x < 0x80);
    loc[p] = x;
    let ll: usize = kani::any();
    kani::assume(ll <= LONG);
    let room: usize = kani::any();
    kani::assume(room <= 400);
    let j: usize = kani::any();
    kani::assume(j <= 400);
    let mut w = Watch { room, pos: 0, watch: j, seen: None, calls: 0 };
    let res = simple_redirect(&mut w, unsafe { std::str::from_utf8_unchecked(&loc[..ll]) });
    const L: &[u8] = b"Location: ";
    let en = L.len() + ll + 2;
    let exp_j = if j < L.len() { Some(L[j]) } else if j - L.len() < ll { Some(loc[j - L.len()]) } else if j < en { Some(b'\n') } else { None };
    match res {
        Ok(n) => {
            assert!(room >= en, "reported success although the destination is too small");
            assert!(n == en && w.pos == en, "returned byte count differs from the bytes of the documented grammar");
            assert!(w.seen == exp_j, "byte at the watched offset differs from `Location: <loc>\\n\\n`");
            kani::cover!(room == en && ll == LONG, "exact fit, maximal location");
            kani::cover!(exp_j == Some(x) && x != b'a', "watched offset is the symbolic byte");
        }
        Err(e) => {
            assert!(room < en, "failed although the destination is large enough");
            if j < room { assert!(w.seen == exp_j, "bytes accepted before the failure differ from the documented grammar"); }
            std::mem::forget(e);
            kani::cover!(room + 1 == en, "one byte short");
        }
    }
}

// @harness name=c20_headers_long_one props=C20 tier=quick timeout=900 rmbody=ioerr
// @bound status 200, one header: name of 0..320 bytes (`n` everywhere except one symbolic byte at a symbolic position), value of 0..320 bytes (`v` likewise), symbolic lengths, destination room 0..700 (symbolic); same length-abstract oracle as c20_headers_long_lengths (a lighter instance that stays decidable on changed code)
// @functions cgi::response::write_headers, std::io::Write::write_all (default method, over the harness writer)
#[kani::proof]
#[kani::unwind(8)]
fn c20_headers_long_one() {
    let mut n1 = [b'n'; LONG];
    let mut v1 = [b'v'; LONG];
    let (p, x, q, y): (usize, u8, usize, u8) = (kani::any(), kani::any(), kani::any(), kani::any());
    kani::assume(p < LONG && q < LONG);
    n1[p] = x; v1[q] = y;
    let (a, b): (usize, usize) = (kani::any(), kani::any());
    kani::assume(a <= LONG && b <= LONG);
    kani::assume(a != 6 || (n1[0] != b's' && n1[0] != b'S'));
    let hs: [(&[u8], &[u8]); 1] = [(&n1[..a], &v1[..b])];
    let room: usize = kani::any();
    kani::assume(room <= 700);
    let j: usize = kani::any();
    kani::assume(j <= 700);
    let mut w = Watch { room, pos: 0, watch: j, seen: None, calls: 0 };
    let res = write_headers(&mut w, http::StatusCode::OK, hs.iter().copied());
    let (exp_j, en) = grammar_at(j, &hs);
    match res {
        Ok(n) => {
            assert!(room >= en, "reported success although the destination is too small");
            assert!(n == en, "returned byte count differs from the bytes of the documented grammar");
            assert!(w.pos == en, "bytes handed to the destination differ in number from the returned count");
            assert!(w.seen == exp_j, "byte at the watched offset differs from the documented header grammar");
            kani::cover!(room == en, "exact fit");
            kani::cover!(a + b == 255 && exp_j.is_some(), "256-byte boundary line");
            kani::cover!(exp_j == Some(y) && y != b'v', "watched offset is the symbolic value byte");
        }
        Err(e) => {
            assert!(room < en, "failed although the destination is large enough");
            if j < room { assert!(w.seen == exp_j, "bytes accepted before the failure differ from the documented grammar"); }
            std::mem::forget(e);
            kani::cover!(room + 1 == en, "one byte short");
        }
    }
}

// @harness name=c20_room_only props=C20 tier=quick timeout=900 rmbody=ioerr
// @bound concrete inputs (location `/x`; status 404 with the one header `A: b`), ONLY the destination room is symbolic (0..40): success iff the whole block fits, count exact, nothing accepted beyond the grammar's length (a cheap instance that stays decidable when the writers are restructured around intermediate buffers)
// @functions cgi::response::simple_redirect, cgi::response::write_headers
#[kani::proof]
#[kani::unwind(8)]
fn c20_room_only() {
    let room: usize = kani::any();
    kani::assume(room <= 40);
    let mut w = Watch { room, pos: 0, watch: 0, seen: None, calls: 0 };
    let which: bool = kani::any();
    let (res, en) = if which {
        (simple_redirect(&mut w, "/x"), b"Location: /x\n\n".len())
    } else {
        let hs: [(&[u8], &[u8]); 1] = [(b"A", b"b")];
        (write_headers(&mut w, http::StatusCode::NOT_FOUND, hs.iter().copied()), b"Status: 404 Not Found\nA: b\n\n".len())
    };
    match res {
        Ok(n) => {
            assert!(room >= en, "reported success although the destination is too small");
            assert!(n == en && w.pos == en, "returned byte count differs from the bytes handed to the destination / the documented grammar");
            kani::cover!(room == en && which, "exact fit (redirect)");
            kani::cover!(room == en && !which, "exact fit (headers)");
        }
        Err(e) => {
            assert!(room < en, "failed although the destination is large enough");
            assert!(w.pos <= room);
            std::mem::forget(e);
            kani::cover!(room + 1 == en, "one byte short");
        }
    }
}
