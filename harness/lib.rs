// Shared helpers for all harness modules (crate::verif_kani) + harnesses for src/lib.rs.
// Compiled only under cfg(kani), in a scratch copy of the repository (DESIGN.md section 3).
use super::*;

/// Stub for `std::hash::RandomState::new` (E2): fixed keys, no getrandom.
pub(crate) fn fixed_random_state() -> std::hash::RandomState {
    // SAFETY: RandomState is two u64 keys (k0, k1); any bit pattern is valid.
    unsafe { std::mem::transmute::<(u64, u64), std::hash::RandomState>((0u64, 0u64)) }
}

/// Stub for `compact_str::repr::ensure_read` (E3): an inline-asm register barrier, identity.
pub(crate) fn ensure_read_id(value: usize) -> usize { value }

/// Stub for `alloc::fmt::format` (formatting is not the subject of any property).
pub(crate) fn fmt_format_stub(_args: std::fmt::Arguments<'_>) -> String { String::new() }

/// A symbolic byte array with a symbolic length `<= N`.
pub(crate) fn any_bytes<const N: usize>() -> ([u8; N], usize) {
    let a: [u8; N] = kani::any();
    let n: usize = kani::any();
    kani::assume(n <= N);
    (a, n)
}

/// Byte-wise slice equality without memcmp (keeps unwind bounds explicit).
pub(crate) fn eq_bytes(a: &[u8], b: &[u8]) -> bool {
    if a.len() != b.len() { return false; }
    let mut i = 0;
    while i < a.len() {
        if a[i] != b[i] { return false; }
        i += 1;
    }
    true
}

// @harness name=c00_smoke props=C00 tier=quick timeout=600
// @bound none (used only to build the dependency cache)
#[kani::proof]
fn c00_smoke() {
    let x: u8 = kani::any();
    assert!(x as u16 <= 255);
}

// ---------------------------------------------------------------- C06: Config::aligned_bufsize

// @harness name=c06_aligned_bufsize props=C06 tier=quick timeout=120
// @bound every usize buffer_size <= isize::MAX (the largest size an allocation can have); full width otherwise
#[kani::proof]
fn c06_aligned_bufsize() {
    let buffer_size: usize = kani::any();
    kani::assume(buffer_size <= isize::MAX as usize);
    let mc: usize = kani::any();
    kani::assume(mc != 0);
    let cfg = Config { buffer_size, max_conns: NonZeroUsize::new(mc).unwrap() };
    let eff = cfg.aligned_bufsize();
    assert!(eff >= buffer_size, "effective buffer smaller than configured");
    assert!(eff >= 24, "effective buffer smaller than protocol minimum");
    assert!(eff % 8 == 0, "effective buffer not a multiple of 8");
    kani::cover!(buffer_size % 8 == 1 && buffer_size > 24, "rounds up by 7");
    kani::cover!(buffer_size == 24, "exact minimum");
    kani::cover!(buffer_size < 24, "below minimum");
    kani::cover!(buffer_size == 8192 && eff == 8192, "default");
    kani::cover!(buffer_size == isize::MAX as usize, "largest allocatable");
}

// @harness name=c06_aligned_bufsize_wrap props=C06 tier=quick timeout=120
// @bound buffer_size in (isize::MAX, usize::MAX]: no panic / overflow, result >= configured (no multiple-of-8 claim: such a buffer cannot be allocated)
#[kani::proof]
fn c06_aligned_bufsize_wrap() {
    let buffer_size: usize = kani::any();
    kani::assume(buffer_size > isize::MAX as usize);
    let cfg = Config { buffer_size, max_conns: NonZeroUsize::new(1).unwrap() };
    let eff = cfg.aligned_bufsize();
    assert!(eff >= buffer_size);
    kani::cover!(buffer_size > usize::MAX - 7, "checked_add overflows");
}

// ---------------------------------------------------------------- E5 models used by parser-level harnesses
// (each is checked against the real function by its own harness: c17_parse_name_*, c17_write_response_*)

/// Cheap stand-in for `ProtocolVariables::parse_name`: the three queryable names are modelled by the
/// one-byte names "A", "B", "C" (any other name is unknown).  The parsers treat parse_name as a black box.
pub(crate) fn parse_name_model(name: &[u8]) -> Result<protocol::ProtocolVariables, protocol::Error> {
    if name.len() == 1 {
        match name[0] {
            b'A' => return Ok(protocol::ProtocolVariables::FCGI_MAX_CONNS),
            b'B' => return Ok(protocol::ProtocolVariables::FCGI_MAX_REQS),
            b'C' => return Ok(protocol::ProtocolVariables::FCGI_MPXS_CONNS),
            _ => {}
        }
    }
    Err(protocol::Error::UnknownVariable)
}

pub(crate) const WR_MODEL_LEN: usize = 4;
/// Cheap stand-in for `ProtocolVariables::write_response`: appends [0xFA, bits, max_conns as u8, 0xFB].
pub(crate) fn write_response_model<V: ext::BytesVec>(vars: protocol::ProtocolVariables, out: &mut V, config: &Config) -> usize {
    out.extend_from_slice(&[0xFA, vars.bits(), config.max_conns.get() as u8, 0xFB]);
    WR_MODEL_LEN
}

// ---------------------------------------------------------------- reference name-value decoding (used by C16, C01, C02, C04)
/// Reference varint decoder at offset `o`: (value, consumed) or None on truncation.
pub(crate) fn ref_varint(b: &[u8], o: usize) -> Option<(usize, usize)> {
    if o >= b.len() { return None; }
    if b[o] & 0x80 == 0 { return Some((b[o] as usize, 1)); }
    if o + 4 > b.len() { return None; }
    let v = (((b[o] & 0x7f) as usize) << 24) | ((b[o + 1] as usize) << 16) | ((b[o + 2] as usize) << 8) | b[o + 3] as usize;
    Some((v, 4))
}

/// Reference (non-iterator) decoder of the pair starting at offset `o`: (head_len, name_len, val_len).
pub(crate) fn ref_next(b: &[u8], o: usize) -> Option<(usize, usize, usize)> {
    let (nl, c1) = ref_varint(b, o)?;
    let (vl, c2) = ref_varint(b, o + c1)?;
    let h = c1 + c2;
    // nl, vl < 2^31: no overflow on a 64-bit usize
    if o + h + nl + vl <= b.len() { Some((h, nl, vl)) } else { None }
}


// ---------------------------------------------------------------- E5b: model of compact_str's integer formatting
// `NonZeroUsize::to_compact_string()` (third-party compact_str + castaway type dispatch) is not tractable under
// CBMC (all 30 specialisation arms incl. ryu float formatting are explored: 3.2 M symex steps per call), and
// 64-bit division by 10 stalls the SAT back end.  It is replaced by this model: the harness chooses the DECIMAL
// DIGITS symbolically, computes max_conns from them (multiplication by constants only) and publishes them in
// ghost state; the model checks it is asked for exactly that number and returns the digit string.
// compact_str's own conversion is third-party code and outside the claim.
pub(crate) static mut G_DIGITS: [u8; 20] = [0; 20];   // most significant first
pub(crate) static mut G_NDIG: usize = 0;
pub(crate) static mut G_VALUE: usize = 0;
pub(crate) trait AsUsize { fn as_usize(&self) -> usize; }
impl AsUsize for std::num::NonZeroUsize { fn as_usize(&self) -> usize { self.get() } }
pub(crate) trait TcsModel: AsUsize {
    fn tcs_model(&self) -> compact_str::CompactString {
        unsafe {
            assert!(self.as_usize() == G_VALUE, "to_compact_string called on a number other than max_conns");
            compact_str::CompactString::new(std::str::from_utf8_unchecked(&G_DIGITS[..G_NDIG]))
        }
    }
}
impl TcsModel for std::num::NonZeroUsize {}

/// Chooses a symbolic number with exactly `nd` decimal digits (1..=20, value <= usize::MAX), publishes its digits.
pub(crate) fn any_decimal(nd: usize) -> usize {
    let mut v: usize = 0;
    let mut i = 0;
    while i < nd {
        let d: u8 = kani::any();
        kani::assume(d <= 9);
        if i == 0 { kani::assume(d >= 1); }
        if nd == 20 && i == 0 { kani::assume(d == 1); }
        unsafe { G_DIGITS[i] = b'0' + d; }
        if nd == 20 && i > 0 {
            // 1xxxxxxxxxxxxxxxxxxx <= 18446744073709551615: accumulate the 19 low digits, bound checked below
        }
        v = v.wrapping_mul(10).wrapping_add(d as usize);
        i += 1;
    }
    if nd == 20 {
        // v wrapped iff the true value exceeds usize::MAX; true value = 10^19 + low where low < 10^19.
        // no wrap  <=>  low <= usize::MAX - 10^19  <=>  v >= 10^19 (as a wrapped sum it would be < 10^19 - ... )
        kani::assume(v >= 10_000_000_000_000_000_000usize);
    }
    unsafe { G_NDIG = nd; G_VALUE = v; }
    v
}

/// `SmallVec::with_capacity(n)` is only a capacity hint; with a symbolic `n` it becomes a symbolic-size heap
/// allocation (CBMC array theory blows up).  Semantics-preserving replacement: start empty, grow on demand.
pub(crate) fn smallvec_with_capacity_model<A: smallvec::Array>(_n: usize) -> smallvec::SmallVec<A> { smallvec::SmallVec::new() }

/// `event_listener::notify::full_fence` is an inline-asm memory fence (unsupported by Kani); in Kani's sequential
/// execution model a fence has no effect.
pub(crate) fn full_fence_noop() {}
