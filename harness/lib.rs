// Shared helpers for all harness modules (crate::verif_kani) + harnesses for src/lib.rs.
// Compiled only under cfg(kani), in a scratch copy of the repository (DESIGN.md section 3).
use super::*;

/// Stub for `std::hash::RandomState::new` (E2): fixed keys, no getrandom.
pub(crate) fn fixed_random_state() -> std::hash::RandomState {
    // SAFETY: RandomState is two u64 keys (k0, k1); any bit pattern is valid.
    unsafe { std::mem::transmute::<(u64, u64), std::hash::RandomState>((0u64, 0u64)) }
}

/// Stub for `compact_str::repr::ensure_read` (E3): an inline-asm register barrier, identity.
pub(crate) fn ensure_read_id(value: usize) -> usize { value }

/// Stub for `alloc::fmt::format` (formatting is not the subject of any property).
pub(crate) fn fmt_format_stub(_args: std::fmt::Arguments<'_>) -> String { String::new() }

/// A symbolic byte array with a symbolic length `<= N`.
pub(crate) fn any_bytes<const N: usize>() -> ([u8; N], usize) {
    let a: [u8; N] = kani::any();
    let n: usize = kani::any();
    kani::assume(n <= N);
    (a, n)
}

/// Byte-wise slice equality without memcmp (keeps unwind bounds explicit).
pub(crate) fn eq_bytes(a: &[u8], b: &[u8]) -> bool {
    if a.len() != b.len() { return false; }
    let mut i = 0;
    while i < a.len() {
        if a[i] != b[i] { return false; }
        i += 1;
    }
    true
}

// @harness name=c00_smoke props=C00 tier=quick timeout=600
// @bound none (used only to build the dependency cache)
#[kani::proof]
fn c00_smoke() {
    let x: u8 = kani::any();
    assert!(x as u16 <= 255);
}

// ---------------------------------------------------------------- C06: Config::aligned_bufsize

// @harness name=c06_aligned_bufsize props=C06 tier=quick timeout=120
// @bound every usize buffer_size <= isize::MAX (the largest size an allocation can have); full width otherwise
#[kani::proof]
fn c06_aligned_bufsize() {
    let buffer_size: usize = kani::any();
    kani::assume(buffer_size <= isize::MAX as usize);
    let mc: usize = kani::any();
    kani::assume(mc != 0);
    let cfg = Config { buffer_size, max_conns: NonZeroUsize::new(mc).unwrap() };
    let eff = cfg.aligned_bufsize();
    assert!(eff >= buffer_size, "effective buffer smaller than configured");
    assert!(eff >= 24, "effective buffer smaller than protocol minimum");
    assert!(eff % 8 == 0, "effective buffer not a multiple of 8");
    // tightness (informational strengthening): never over-allocates by 8 or more above max(24, size)
    let floor = if buffer_size < 24 { 24 } else { buffer_size };
    assert!(eff - floor < 8, "rounding adds a whole unit or more");
    kani::cover!(buffer_size % 8 == 1 && buffer_size > 24, "rounds up by 7");
    kani::cover!(buffer_size == 24, "exact minimum");
    kani::cover!(buffer_size < 24, "below minimum");
    kani::cover!(buffer_size == 8192 && eff == 8192, "default");
    kani::cover!(buffer_size == isize::MAX as usize, "largest allocatable");
}

// @harness name=c06_aligned_bufsize_wrap props=C06 tier=quick timeout=120
// @bound buffer_size in (isize::MAX, usize::MAX]: no panic / overflow, result >= configured (no multiple-of-8 claim: such a buffer cannot be allocated)
#[kani::proof]
fn c06_aligned_bufsize_wrap() {
    let buffer_size: usize = kani::any();
    kani::assume(buffer_size > isize::MAX as usize);
    let cfg = Config { buffer_size, max_conns: NonZeroUsize::new(1).unwrap() };
    let eff = cfg.aligned_bufsize();
    assert!(eff >= buffer_size);
    kani::cover!(buffer_size > usize::MAX - 7, "checked_add overflows");
}

// ---------------------------------------------------------------- E5 models used by parser-level harnesses
// (each is checked against the real function by its own harness: c17_parse_name_*, c17_write_response_*)

/// Cheap stand-in for `ProtocolVariables::parse_name`: the three queryable names are modelled by the
/// one-byte names "A", "B", "C" (any other name is unknown).  The parsers treat parse_name as a black box.
pub(crate) fn parse_name_model(name: &[u8]) -> Result<protocol::ProtocolVariables, protocol::Error> {
    if name.len() == 1 {
        match name[0] {
            b'A' => return Ok(protocol::ProtocolVariables::FCGI_MAX_CONNS),
            b'B' => return Ok(protocol::ProtocolVariables::FCGI_MAX_REQS),
            b'C' => return Ok(protocol::ProtocolVariables::FCGI_MPXS_CONNS),
            _ => {}
        }
    }
    Err(protocol::Error::UnknownVariable)
}

pub(crate) const WR_MODEL_LEN: usize = 4;
/// Cheap stand-in for `ProtocolVariables::write_response`: appends [0xFA, bits, max_conns as u8, 0xFB].
pub(crate) fn write_response_model<V: ext::BytesVec>(vars: protocol::ProtocolVariables, out: &mut V, config: &Config) -> usize {
    out.extend_from_slice(&[0xFA, vars.bits(), config.max_conns.get() as u8, 0xFB]);
    WR_MODEL_LEN
}
