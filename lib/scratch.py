"""Scratch-copy handling: copy /repo's working tree, overlay the Kani harness modules.

Nothing in /repo is modified.  See DESIGN.md section 3.
"""
import os, re, shutil, subprocess, hashlib, time

VERIF = os.path.dirname(os.path.dirname(os.path.abspath(__file__)))
REPO = os.environ.get("VERIF_REPO", "/repo")
CACHE = os.environ.get("VERIF_CACHE", "/root/.cache/fcgi-verif")
HARNESS_DIR = os.path.join(VERIF, "harness")
SHIM_DIR = os.path.join(VERIF, "shims", "tracing")
FEATURES = "async,http"

ENV = dict(os.environ)
ENV.update({"CARGO_NET_OFFLINE": "true", "CARGO_TERM_COLOR": "never"})
# never inherit a toolchain override: cargo-kani selects its own pinned toolchain
ENV.pop("RUSTUP_TOOLCHAIN", None)

# source file (relative to src/) -> module-include line
ALLOW = ("#[allow(unsafe_code, single_use_lifetimes, unused_lifetimes, dead_code, unused_imports, "
         "unused_variables, unused_mut, unreachable_pub, let_underscore_drop, clippy::all, clippy::pedantic, "
         "clippy::unwrap_used, clippy::semicolon_inside_block, clippy::mixed_read_write_in_expression)]")


SNAP = {}


def harness_files():
    """Return {src-relative path: absolute harness path} for every harness file present."""
    out = {}
    for root, _dirs, files in os.walk(HARNESS_DIR):
        for f in files:
            if f.endswith(".rs"):
                p = os.path.join(root, f)
                rel = os.path.relpath(p, HARNESS_DIR)
                out[rel] = p
    return out


def src_of(rel):
    """Source file a harness file is attached to: 'parser/stream.int.rs' -> 'parser/stream.rs'."""
    return rel[:-len(".int.rs")] + ".rs" if rel.endswith(".int.rs") else rel


def modname(rel):
    """A source file can carry two harness modules: `<f>.rs` (harnesses that use the API the other modules of the
    crate use) -> verif_kani, and `<f>.int.rs` (one-step lemmas that call private helper functions and therefore
    depend on their signatures) -> verif_kani_int.  The runner can drop the latter when it no longer compiles."""
    return "verif_kani_int" if rel.endswith(".int.rs") else "verif_kani"


def module_path(rel):
    """'protocol/varint.rs' -> 'protocol::varint::verif_kani'; 'lib.rs' -> 'verif_kani'."""
    parts = src_of(rel)[:-3].split("/")
    if parts[-1] in ("mod", "lib"):
        parts = parts[:-1]
    return "::".join(parts + [modname(rel)])


def make_scratch(run_id, files, patches=()):
    """Copy the repo working tree and append the harness modules for `files` (src-relative)."""
    dst = os.path.join(CACHE, "runs", run_id)
    if os.path.exists(dst):
        shutil.rmtree(dst)
    os.makedirs(dst)
    crate = os.path.join(dst, "crate")
    subprocess.run(["rsync", "-a", "--exclude", "/target", "--exclude", "/.git", REPO + "/", crate + "/"], check=True)
    # development aid (--patch): apply seeded changes to the SCRATCH COPY only; /repo is never touched
    for pf in patches:
        subprocess.run(["patch", "-p1", "-s", "-i", os.path.abspath(pf)], cwd=crate, check=True)
    # 1. Cargo.toml: drop dev-deps and examples, redirect tracing to the shim
    ct = open(os.path.join(crate, "Cargo.toml")).read()
    ct = re.sub(r"(?ms)^\[dev-dependencies\].*?(?=^\[)", "", ct)
    ct = re.sub(r"(?ms)^\[\[example\]\].*?(?=^\[|\Z)", "", ct)
    ct, n = re.subn(r'(?m)^tracing\s*=.*$',
                    'tracing = { path = "%s", default-features = false, features = ["std"] }' % SHIM_DIR, ct)
    if n != 1:
        raise SystemExit("cannot redirect the tracing dependency in Cargo.toml")
    ct += "\n[workspace]\n"
    ct += "\n[lints.rust]\nunexpected_cfgs = { level = \"allow\" }\n" if "[lints" not in ct else ""
    open(os.path.join(crate, "Cargo.toml"), "w").write(ct)
    exdir = os.path.join(crate, "examples")
    if os.path.isdir(exdir):
        shutil.rmtree(exdir)
    # nightly features the harness modules need (only under cfg(kani)); shifts line numbers of lib.rs by one
    lib = os.path.join(crate, "src", "lib.rs")
    t = open(lib).read()
    open(lib, "w").write("#![cfg_attr(kani, feature(allocator_api))]\n" + t)
    # 2. append harness modules (cfg(kani) only)
    # the harness sources are snapshotted into the run directory, so edits under harness/ during a run do not matter
    hsnap = os.path.join(dst, "harness")
    shutil.copytree(HARNESS_DIR, hsnap)
    hf = {rel: os.path.join(hsnap, rel) for rel in harness_files()}
    for rel in sorted(set(files) | {"lib.rs"}):
        if rel not in hf:
            raise SystemExit("no harness file for " + rel)
        src = os.path.join(crate, "src", src_of(rel))
        if not os.path.exists(src):
            # the repository no longer has this file: harness cannot be attached
            raise FileNotFoundError(src)
        with open(src, "a") as f:
            f.write("\n#[cfg(kani)] %s pub(crate) mod %s { include!(\"%s\"); }\n" % (ALLOW, modname(rel), hf[rel]))
    SNAP[dst] = hf
    return dst, crate


def lock_digest():
    h = hashlib.sha256()
    for p in (os.path.join(REPO, "Cargo.lock"), os.path.join(SHIM_DIR, "Cargo.toml"),
              os.path.join(SHIM_DIR, "src", "lib.rs")):
        h.update(open(p, "rb").read())
    h.update(SHIM_DIR.encode())
    h.update(FEATURES.encode())
    return h.hexdigest()[:16]


def remove(dst):
    shutil.rmtree(dst, ignore_errors=True)
