#!/usr/bin/env python3
"""Record the measured wall time of every harness (from the newest evidence file that has it) in lib/timings.json.
The runner uses it only to start the longest harnesses first (scheduling; no influence on any verdict)."""
import json, glob, os
V = os.path.dirname(os.path.dirname(os.path.abspath(__file__)))
p = os.path.join(V, "lib", "timings.json")
t = json.load(open(p)) if os.path.exists(p) else {}
for f in sorted(glob.glob(os.path.join(V, "evidence", "C*.json")), key=os.path.getmtime):   # newest evidence wins
    for s in json.load(open(f))["coverage"]["samples"]:
        if s.get("status") == "PASS":
            n = s["harness"].split("::")[-1]
            t[n] = [round(s["wall_s"]), s.get("peak_rss_gb") or (t.get(n)[1] if isinstance(t.get(n), list) else None)]
json.dump(dict(sorted(t.items())), open(p, "w"), indent=0)
print(len(t), "timings")
