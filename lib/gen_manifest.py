#!/usr/bin/env python3
"""Regenerate MANIFEST.json from lib/props.py (single source of truth for claims)."""
import json, os, sys
sys.path.insert(0, os.path.dirname(os.path.abspath(__file__)))
import props as P
VERIF = os.path.dirname(os.path.dirname(os.path.abspath(__file__)))
ids = [json.loads(l)["id"] for l in open(os.path.join(VERIF, "properties.jsonl"))]
checks, na = [], []
for i in ids:
    m = P.PROPS.get(i)
    if m and m.get("claimed", True):
        checks.append({
            "property_id": i,
            "quick_cmd": "bin/check %s --tier quick" % i,
            "thorough_cmd": "bin/check %s --tier thorough" % i,
            "evidence_file": "evidence/%s.json" % i,
            "replay_cmd_template": "bin/check %s --replay {path}" % i,
            "engine": "kani-cbmc",
            "level_claimed": {"category": "model_checking", "text": m["level_text"], "design_ref": m.get("design_ref", "DESIGN.md section 7/" + i)},
            "level_note": m["level_note"],
            "technique": m["technique"],
        })
    else:
        na.append({"property_id": i, "reason": P.NOT_APPLICABLE.get(i, "check not built yet (work in progress in this session)")})
man = {
    "version": 1,
    "setup_cmd": "bin/setup",
    "hooks": {
        "guard": "none (no source hooks: harnesses are attached to a scratch copy of /repo's working tree under cfg(kani), see DESIGN.md section 3)",
        "enable": "bin/check copies /repo's working tree to $VERIF_CACHE/runs/<id>/crate, appends `#[cfg(kani)] mod verif_kani { include!(\"/verif/harness/<file>.rs\"); }` to the source files under test and runs cargo kani there; /repo itself is never modified",
        "baseline_off_cmd": "cd /repo && cargo test --workspace --no-fail-fast --offline",
        "source_commits": P.HOOK_COMMITS,
        "add_only": True,
    },
    "engines": [{"name": "kani-cbmc", "path": "lib/runner.py", "serves_properties": [c["property_id"] for c in checks],
                 "kind_free_text": "Kani 0.68.0 bounded model checker (rustc MIR -> GOTO -> CBMC 6.11.0 -> CaDiCaL SAT); harnesses in harness/**.rs; runner regenerates the encoding from /repo's working tree on every run"}],
    "checks": checks,
    "not_applicable": na,
    "notes": P.NOTES,
}
json.dump(man, open(os.path.join(VERIF, "MANIFEST.json"), "w"), indent=1)
print("MANIFEST.json: %d checks, %d not_applicable" % (len(checks), len(na)))
