"""Check runner: one property, one tier.  See DESIGN.md section 6.

Exit codes: 0 = every harness of the tier was decided by the solver and held (or only listed
known findings failed); 1 = a violation that reproduces natively (prints VIOLATION line);
2 = INCONCLUSIVE (compile failure, timeout, out of memory, vacuous harness, counterexample that
does not reproduce) - never reported as a pass and never as a violation.
"""
import os, re, sys, json, time, shutil, subprocess, fcntl, hashlib, threading, queue

sys.path.insert(0, os.path.dirname(os.path.abspath(__file__)))
import scratch
import props as P

VERIF = scratch.VERIF
CACHE = scratch.CACHE
KNOWN = os.path.join(VERIF, "known_findings.json")

TIER_CAP = {"quick": 2400, "thorough": 7200}
KANI_REAL = "/root/.kani/kani-0.68.0"
# E8 (DESIGN.md section 4): bodies removed from the GOTO program before CBMC runs; each is a no-op for every property
RMBODY = {
    # dropping an io::Error: the bit-packed repr makes CBMC explore the boxed `Custom` arm (virtual drop of a
    # Box<dyn Error>) at every drop; with the body removed, dropping an io::Error does nothing (a leak).
    "ioerr": ("noop", r"<core::io::error::repr::Repr as std::ops::Drop>::drop /"),
    # Vec / SmallVec reallocation: harnesses pre-size their buffers; growth with a symbolic capacity turns into
    # symbolic-size allocations (CBMC array theory runs out of memory).  The growth functions get the body
    # `assert(false); assume(false)`, i.e. the solver must PROVE that no reallocation happens within the bound.
    # E4c: hashbrown's insert (reached through HashMap::extend, which cannot be stubbed at the Rust level) becomes a
    # no-op, together with the drop of its (then nondeterministic) Option<old value> result: the map is not updated,
    # so harnesses using this class observe the NAMES handed to make_cgivar (ghost log) but not the stored values.
    "nomap": ("noop", r"^hashbrown::map::HashMap::<.*>::insert /|^hashbrown::map::HashMap::<.*>::reserve /|^std::ptr::drop_glue::<std::option::Option<smallvec::SmallVec<\[u8; 16\]>>> /"),
    # multi-step harnesses whose scenario contains no GetValues body: the name-value iterator must be unreachable
    # (proved by the solver); removes the most expensive arm of every parse() iteration from symbolic execution
    "nonv": ("unreachable", r"^<protocol::nv::NVIter<&\[u8\]> as std::iter::Iterator>::next /"),
    # scenario never starts a request: the Params state machine must be unreachable
    "noparams": ("unreachable", r"^parser::request::ParamsState::drive /"),
    # sequential model: a std Mutex is never contended (spin loop unreachable)
    "nocontend": ("unreachable", r"^std::sys::sync::mutex::futex::Mutex::lock_contended /"),
    # dropping a parser::Request (hashbrown walks all control groups of the - here always empty - environment map):
    # the drop becomes a no-op (a leak), like every other E6 forget
    "nodropreq": ("noop", r"^std::ptr::drop_glue::<parser::Request> /"),
    # single-task harnesses: the futures Mutex is never contended, so nobody ever queues for it.  The waiter-queue
    # functions must be unreachable (proved); without the cut one uncontended lock/unlock costs 4.2 M symex steps
    "nowaiters": ("unreachable", r"^slab::Slab::<.*>::insert /|^slab::Slab::<.*>::iter_mut /|^slab::Slab::<.*>::remove /|^slab::Slab::<.*>::try_remove /|^std::sys::sync::mutex::futex::Mutex::lock_contended /|^std::sys::sync::mutex::futex::Mutex::wake /"),
    # close() harnesses start from a writeable request: writeable() returns at once, poll_input must be unreachable
    "nopollinput": ("unreachable", r"^async_io::Request::<.*>::poll_input /"),
    # close() harnesses that start AT a record boundary: record_boundary() returns at once, so the stream parser, the
    # reply flush and the reader must be unreachable (proved).  Needed because a future awaited inside another async fn
    # lives in the outer coroutine's variant union, where CBMC loses the constant value of the inner state
    # discriminant and explores every resume point of the inner state machine; with these bodies cut those
    # explorations die at their first call
    "noparse": ("unreachable", r"^parser::stream::Parser::<'_>::parse /|^async_io::Request::<.*>::poll_output /"),
    "nogrow": ("unreachable", r"raw_vec::RawVecInner::grow_amortized /|raw_vec::RawVecInner::grow_exact /|SmallVec::<.*>::try_grow /"),
}


def ensure_wrap():
    """Symlink farm around the installed Kani bundle whose goto-instrument is our wrapper (shims/kani-wrap)."""
    src = os.path.join(VERIF, "shims", "kani-wrap", "goto-instrument")
    dig = hashlib.sha256(open(src, "rb").read()).hexdigest()[:12]
    w = os.path.join(CACHE, "kani-wrap-" + dig)
    if os.path.exists(os.path.join(w, "ok")):
        return w
    os.makedirs(CACHE, exist_ok=True)
    with open(os.path.join(CACHE, "wrap.lock"), "w") as lk:
        fcntl.flock(lk, fcntl.LOCK_EX)
        if os.path.exists(os.path.join(w, "ok")):
            return w
        shutil.rmtree(w, ignore_errors=True)
        d = os.path.join(w, "kani-0.68.0")
        os.makedirs(os.path.join(d, "bin"))
        for f in os.listdir(KANI_REAL):
            if f != "bin":
                os.symlink(os.path.join(KANI_REAL, f), os.path.join(d, f))
        for f in os.listdir(os.path.join(KANI_REAL, "bin")):
            if f == "kani-driver":      # must be a real copy: the driver locates its bundle via current_exe()
                shutil.copy2(os.path.join(KANI_REAL, "bin", f), os.path.join(d, "bin", f))
            elif f != "goto-instrument":
                os.symlink(os.path.join(KANI_REAL, "bin", f), os.path.join(d, "bin", f))
        shutil.copy2(src, os.path.join(d, "bin", "goto-instrument"))
        os.chmod(os.path.join(d, "bin", "goto-instrument"), 0o755)
        open(os.path.join(w, "ok"), "w").write("ok")
    return w

DEFAULT_MEM_GB = 12
# stubs that do not consume nondeterministic values and do not change what the harness observes
BENIGN_STUBS = {"fixed_random_state", "fmt_format_stub", "full_fence_noop", "smallvec_with_capacity_model", "ensure_read_id"}


# ----------------------------------------------------------------------------- registry
class Harness:
    def __init__(self, name, file, kv, bound, funcs, line):
        self.name = name
        self.file = file
        self.props = kv.get("props", "").split(",")
        self.tier = kv.get("tier", "quick")
        self.timeout = int(kv["timeout"]) if "timeout" in kv else None
        self.mem = int(kv.get("mem", DEFAULT_MEM_GB))       # hard cap (ulimit -v), GB
        self.est = int(kv.get("est", 3 if "mem" not in kv else max(3, int(kv["mem"]) // 2)))  # expected peak RSS for scheduling, GB
        self.flags = kv.get("flags", "")
        self.dead = int(kv.get("dead", 0))
        self.unwindset = kv.get("unwindset", "")  # E8: per-loop unwinding bounds "fn-regex:N;fn-regex:N"
        self.rmbody = kv.get("rmbody", "")       # E8: names of function-body removals (see RMBODY)   # covers that are dead code BY CONSTRUCTION in this instantiation
        self.bound = bound
        self.funcs = funcs
        self.line = line
        self.full = scratch.module_path(file) + "::" + name


def registry():
    regs = {}
    for rel, path in sorted(scratch.harness_files().items()):
        lines = open(path).read().split("\n")
        i = 0
        while i < len(lines):
            m = re.match(r"\s*// @harness (.*)", lines[i])
            if m:
                kv = dict(x.split("=", 1) for x in m.group(1).split())
                bound, funcs = "", ""
                j = i + 1
                while j < len(lines) and lines[j].strip().startswith("// @"):
                    t = lines[j].strip()
                    if t.startswith("// @bound "):
                        bound += t[len("// @bound "):] + " "
                    if t.startswith("// @functions "):
                        funcs += t[len("// @functions "):] + " "
                    j += 1
                name = kv["name"]
                # sanity: the function must exist below
                blob = "\n".join(lines[j:j + 12])
                if not re.search(r"\b%s\b" % re.escape(name), blob):
                    raise SystemExit("%s:%d: @harness %s has no matching fn" % (path, i + 1, name))
                if name in regs:
                    raise SystemExit("duplicate harness name " + name)
                regs[name] = Harness(name, rel, kv, bound.strip(), funcs.strip(), i + 1)
                # stubs that replace behaviour by a nondeterministic model / contract (everything except the benign ones)
                own = re.split(r"(?m)^(?:pub(?:\(crate\))? )?fn |^\w+!\(", blob)[0]      # attributes of THIS harness only
                mm = re.search(r"(?m)^(\w+)!\(\s*%s\b" % re.escape(name), blob)
                if mm:      # harness generated by a macro: its stub attributes are in the macro definition
                    md = re.search(r"macro_rules! %s \{.*?\n\}\n" % mm.group(1), "\n".join(lines), re.S)
                    own += md.group(0) if md else ""
                regs[name].model_stubs = [x for x in re.findall(r"#\[kani::stub\([^,]+,\s*([\w:]+)\)\]", own)
                                          if x.split("::")[-1] not in BENIGN_STUBS]
                i = j
            else:
                i += 1
    return regs


# ----------------------------------------------------------------------------- log parsing
CHECK_RE = re.compile(r"^Check (\d+): (.+)\n\t - Status: (\S+)\n\t - Description: \"(.*)\"\n(?:\t - Location: (.*)\n)?", re.M)


def parse_log(text):
    r = {"verdict": None, "failed": [], "undetermined": 0, "covers": [], "checks": 0, "unreachable": 0,
         "vars": 0, "clauses": 0, "solver_s": 0.0, "symex_s": 0.0, "steps": 0, "decisions": 0, "verif_s": None}
    for m in CHECK_RE.finditer(text):
        num, name, status, desc, loc = m.groups()
        if ".cover." in name or status in ("SATISFIED", "UNSATISFIABLE"):
            # goto-instrument's per-loop unwinding (E8 unwindset) clones the code after a mid-loop exit once per unrolled
            # iteration, and with it the cover statements: clones of one source-level cover (same description, same
            # location) count as ONE witness, satisfied iff any clone is
            key = desc + " @ " + (loc or "").strip()
            prev = next((c for c in r["covers"] if c["key"] == key), None)
            if prev is None:
                r["covers"].append({"desc": desc, "status": status, "key": key})
            elif status == "SATISFIED" or (status == "UNSATISFIABLE" and prev["status"] == "UNREACHABLE"):
                prev["status"] = status
            continue
        r["checks"] += 1
        if status == "FAILURE":
            r["failed"].append({"check": name, "desc": desc, "loc": (loc or "").strip()})
        elif status == "UNDETERMINED":
            r["undetermined"] += 1
        elif status == "UNREACHABLE":
            r["unreachable"] += 1
    for m in re.finditer(r"^(\d+) variables, (\d+) clauses", text, re.M):
        r["vars"] = max(r["vars"], int(m.group(1)))
        r["clauses"] = max(r["clauses"], int(m.group(2)))
        r["decisions"] += 1
    for m in re.finditer(r"^Runtime decision procedure: ([0-9.e+-]+)s", text, re.M):
        r["solver_s"] += float(m.group(1))
    for m in re.finditer(r"^Runtime Symex: ([0-9.e+-]+)s", text, re.M):
        r["symex_s"] += float(m.group(1))
    for m in re.finditer(r"^size of program expression: (\d+) steps", text, re.M):
        r["steps"] = max(r["steps"], int(m.group(1)))
    mr = re.findall(r"^VERIF_MAXRSS_KB=(\d+)", text, re.M)
    r["peak_rss_gb"] = round(max(int(x) for x in mr) / 1048576.0, 1) if mr else None
    m = re.search(r"^Verification Time: ([0-9.]+)s", text, re.M)
    if m:
        r["verif_s"] = float(m.group(1))
    if "VERIFICATION:- SUCCESSFUL" in text:
        r["verdict"] = "SUCCESSFUL"
    elif "VERIFICATION:- FAILED" in text:
        r["verdict"] = "FAILED"
    return r


def classify(rc, text, parsed, dead=0):
    """-> (status, detail).  status in PASS FAIL UNWIND CUT VACUOUS TIMEOUT OOM COMPILE ERROR"""
    if rc == 124 or rc == 137 and "Killed" not in text and parsed["verdict"] is None and "timeout" in text.lower():
        return "TIMEOUT", "time limit reached"
    if re.search(r"^error(\[E\d+\])?:", text, re.M) and "Compiling" in text and parsed["verdict"] is None and \
            "could not compile" in text:
        errs = re.findall(r"^error.*$", text, re.M)[:5]
        return "COMPILE", "; ".join(errs)
    if "std::bad_alloc" in text or "Out of memory" in text or "run out of memory" in text or "ran out of memory" in text or "memory exhausted" in text or \
            re.search(r"CBMC.*(SIGKILL|SIGABRT|signal)", text) or "Status: ERROR" in text and parsed["verdict"] != "SUCCESSFUL" and not parsed["failed"]:
        return "OOM", "solver ran out of memory (ulimit) or crashed"
    if parsed["verdict"] is None:
        if rc == 124:
            return "TIMEOUT", "time limit reached"
        tail = text[-600:].replace("\n", " | ")
        return "ERROR", "no verdict (rc=%s): %s" % (rc, tail)
    if parsed["verdict"] == "SUCCESSFUL":
        unsat = [c for c in parsed["covers"] if c["status"] not in ("SATISFIED", "UNREACHABLE")]
        unreach = [c for c in parsed["covers"] if c["status"] == "UNREACHABLE"]
        sat = [c for c in parsed["covers"] if c["status"] == "SATISFIED"]
        if len(unsat) + len(unreach) != dead or not sat:
            return "VACUOUS", "cover witnesses: %d satisfied, %d not satisfiable/unreachable (declared dead=%d): %s" % (
                len(sat), len(unreach) + len(unsat), dead, "; ".join(c["desc"] for c in unsat + unreach))
        return "PASS", ""
    # FAILED
    real = [f for f in parsed["failed"] if "unwinding assertion" not in f["desc"]]
    # E8 "unreachable" cuts that the code DOES reach: the harness's scenario no longer matches the code.  That is a
    # violated assumption of the harness (inconclusive), never a property violation.
    cut = [f for f in real if "with missing definition is unreachable" in f["desc"]]
    if cut and len(cut) == len(real):
        return "CUT", "the code reaches a function this harness assumes unreachable (E8): " + "; ".join(sorted(set(f["loc"].split(" in function ")[-1] for f in cut)))[:600]
    if not real and parsed["failed"]:
        return "UNWIND", "unwinding bound too small: " + "; ".join(sorted(set(f["loc"] for f in parsed["failed"])))[:400]
    if not real:
        return "ERROR", "FAILED without a failing check"
    return "FAIL", "; ".join("%s [%s]" % (f["desc"], f["loc"]) for f in real)[:1500]


# ----------------------------------------------------------------------------- execution
def sh(cmd, cwd, log, timeout, mem_gb, rmbody="", unwindset=""):
    kb = mem_gb * 1024 * 1024
    # GNU time reports the peak resident size of the largest process of the run (the solver): used for scheduling only
    tm = "/usr/bin/time -f VERIF_MAXRSS_KB=%M " if os.path.exists("/usr/bin/time") else ""
    wrapped = "ulimit -v %d; exec %stimeout -k 10 %d %s" % (kb, tm, timeout, " ".join(map(shquote, cmd)))
    env = dict(scratch.ENV)
    if unwindset:
        env["KANI_HOME"] = ensure_wrap()
        env["VERIF_UNWINDSET"] = unwindset
    if rmbody:
        env["KANI_HOME"] = ensure_wrap()
        env["VERIF_NOOP_RE"] = "|".join(RMBODY[x][1] for x in rmbody.split(",") if RMBODY[x][0] == "noop")
        env["VERIF_UNREACHABLE_RE"] = "|".join(RMBODY[x][1] for x in rmbody.split(",") if RMBODY[x][0] == "unreachable")
    env["VERIF_WRAP_LOG"] = log + ".wrap"
    with open(log, "w") as f:
        p = subprocess.run(["bash", "-c", wrapped], cwd=cwd, stdout=f, stderr=subprocess.STDOUT, env=env)
    if os.path.exists(log + ".wrap"):
        with open(log, "a") as f:
            f.write("\n" + "".join("[verif-wrap] " + l for l in open(log + ".wrap")))
    return p.returncode


def shquote(s):
    return "'" + s.replace("'", "'\\''") + "'"


def kani_cmd(full, target, extra=()):
    return ["cargo", "kani", "--features", scratch.FEATURES, "--target-dir", target, "--default-unwind", "40",
            "--exact", "--harness", full, "-Z", "stubbing"] + list(extra)


def ensure_depcache(crate, logdir):
    """Compiled third-party dependencies (only) are cached across runs, keyed by Cargo.lock + shim."""
    dig = scratch.lock_digest()
    dc = os.path.join(CACHE, "deps-" + dig)
    if os.path.isdir(os.path.join(dc, "target")):
        return os.path.join(dc, "target")
    os.makedirs(CACHE, exist_ok=True)
    with open(os.path.join(CACHE, "deps.lock"), "w") as lk:
        fcntl.flock(lk, fcntl.LOCK_EX)
        if os.path.isdir(os.path.join(dc, "target")):
            return os.path.join(dc, "target")
        tmp = dc + ".tmp%d" % os.getpid()
        shutil.rmtree(tmp, ignore_errors=True)
        os.makedirs(tmp)
        log = os.path.join(logdir, "_depbuild.log")
        rc = sh(kani_cmd("verif_kani::c00_smoke", os.path.join(tmp, "target")), crate, log, 1500, 16)
        txt = open(log, errors="replace").read()
        if "VERIFICATION:- SUCCESSFUL" not in txt:
            shutil.rmtree(tmp, ignore_errors=True)
            return None
        os.rename(tmp, dc)
    return os.path.join(dc, "target")


MEM_BUDGET_GB = int(os.environ.get("VERIF_MEM_GB", "48"))


def run_pool(jobs, crate, dep_target, rundir, nworkers, on_done):
    q = queue.Queue()
    for j in jobs:
        q.put(j)
    results = {}
    lock = threading.Lock()
    memcv = threading.Condition()
    inuse = [0]

    def worker(slot):
        tdir = None
        while True:
            try:
                h, timeout = q.get_nowait()
            except queue.Empty:
                break
            if tdir is None:
                tdir = os.path.join(rundir, "t%d" % slot)
                subprocess.run(["cp", "-a", dep_target, tdir], check=True)
            log = os.path.join(rundir, "logs", h.name + ".log")
            # memory-aware admission: the sum of the expected peak sizes of running solvers stays within the budget
            with memcv:
                while inuse[0] > 0 and inuse[0] + h.est > MEM_BUDGET_GB:
                    memcv.wait()
                inuse[0] += h.est
            t0 = time.time()
            extra = h.flags.split(",") if h.flags else []
            try:
                rc = sh(kani_cmd(h.full, tdir, extra), crate, log, timeout, h.mem, h.rmbody, h.unwindset)
            finally:
                with memcv:
                    inuse[0] -= h.est
                    memcv.notify_all()
            dt = time.time() - t0
            text = open(log, errors="replace").read()
            parsed = parse_log(text)
            status, detail = classify(rc, text, parsed, h.dead)
            with lock:
                results[h.name] = {"status": status, "detail": detail, "wall_s": round(dt, 1), "parsed": parsed,
                                   "log": log, "slot_target": tdir}
                on_done(h, results[h.name])
        # leave tdir for possible playback; removed with rundir

    ths = [threading.Thread(target=worker, args=(i,)) for i in range(nworkers)]
    for t in ths:
        t.start()
    for t in ths:
        t.join()
    return results


# ----------------------------------------------------------------------------- playback
def playback(h, crate, tdir, rundir, prop):
    """Turn the solver's counterexample into a unit test and run it natively (dev + release-like).
    Returns (reproduced: bool|None, replay_path, note)."""
    log = os.path.join(rundir, "logs", h.name + ".playback.log")
    extra = (h.flags.split(",") if h.flags else []) + ["-Z", "concrete-playback", "--concrete-playback=print"]
    sh(kani_cmd(h.full, tdir, extra), crate, log, 3600, max(h.mem, 16), h.rmbody, h.unwindset)
    text = open(log, errors="replace").read()
    tests = re.findall(r"```\n(.*?)```", text, re.S)
    tests = [t for t in tests if "kani_concrete_playback" in t and "Check for `cover`" not in t]
    if not tests:
        return None, None, "no concrete playback test was produced"
    rdir = os.path.join(VERIF, "replays", prop)
    os.makedirs(rdir, exist_ok=True)
    rpath = os.path.join(rdir, h.name + ".rs")
    names = []
    with open(rpath, "w") as f:
        f.write("// Concrete counterexample(s) for harness %s (property %s), produced by Kani concrete playback.\n" % (h.full, prop))
        f.write("// Replay: %s/bin/check %s --replay %s\n" % (VERIF, prop, rpath))
        for t in tests:
            f.write(t + "\n")
            names += re.findall(r"fn (kani_concrete_playback_\w+)", t)
    if getattr(h, "model_stubs", None):
        # Kani's native playback cannot apply #[kani::stub]: natively the REAL function runs where the solver's
        # counterexample used the contract/model, so the recorded value sequence does not line up.  The counterexample
        # is a violation of the harness's claim "for every behaviour the contract allows"; it is reported with the
        # concrete values, not replayed natively.
        with open(rpath, "a") as f:
            f.write("// NOTE: harness uses model/contract stubs (%s): counterexample is at the level of that model; "
                    "native replay is not applicable.\n" % ", ".join(h.model_stubs))
        return True, rpath, "model-level counterexample (stubs: %s); native replay not applicable" % ", ".join(h.model_stubs)
    ok, note = run_replay(h, crate, rpath, names, rundir)
    return ok, rpath, note


def run_replay(h, crate, rpath, names, rundir):
    """Attach the replay file to the harness module of the scratch crate and run the tests natively."""
    src = os.path.join(crate, "src", scratch.src_of(h.file))
    s = open(src).read()
    snap = os.path.join(os.path.dirname(crate), "harness", h.file)
    marker = "pub(crate) mod %s { include!(\"%s\");" % (scratch.modname(h.file), snap)
    if marker not in s:
        return None, "harness module marker not found"
    s2 = s.replace(marker, marker + " include!(\"%s\");" % rpath)
    open(src, "w").write(s2)
    # the repository's own #[cfg(test)] modules need dev-dependencies that the scratch manifest dropped:
    # disable them for the playback build (the replay tests themselves are plain #[test] functions)
    for root, _d, fs in os.walk(os.path.join(crate, "src")):
        for fn in fs:
            if fn.endswith(".rs"):
                pth = os.path.join(root, fn)
                t = open(pth).read()
                if "#[cfg(test)]" in t:
                    open(pth, "w").write(t.replace("#[cfg(test)]", "#[cfg(any())]"))
    s = s.replace("#[cfg(test)]", "#[cfg(any())]")
    notes = []
    reproduced = {}
    try:
        for prof, env in (("dev", {}), ("release-like", {"CARGO_PROFILE_DEV_OPT_LEVEL": "3",
                                                         "CARGO_PROFILE_DEV_DEBUG_ASSERTIONS": "false",
                                                         "CARGO_PROFILE_DEV_OVERFLOW_CHECKS": "false"})):
            log = os.path.join(rundir, "logs", "%s.replay.%s.log" % (h.name, prof))
            e = dict(scratch.ENV)
            e.update(env)
            e["CARGO_TARGET_DIR"] = os.path.join(rundir, "replay-target-" + prof)
            cmd = ["cargo", "kani", "playback", "-Z", "concrete-playback", "--features", scratch.FEATURES, "--lib",
                   "--"] + ["kani_concrete_playback"]
            with open(log, "w") as f:
                p = subprocess.run(["timeout", "1800"] + cmd, cwd=crate, stdout=f, stderr=subprocess.STDOUT, env=e)
            out = open(log, errors="replace").read()
            m = re.search(r"test result: (\w+)\. (\d+) passed; (\d+) failed", out)
            if not m:
                notes.append("%s: replay did not run (rc=%d)" % (prof, p.returncode))
                reproduced[prof] = None
            else:
                pm = re.findall(r"panicked at [^\n]*\n[^\n]*", out)
                # a replay that only trips a kani::assume did not follow the solver's trace: that is no reproduction
                real = [x for x in pm if "`kani::assume` should always hold" not in x]
                reproduced[prof] = (int(m.group(3)) > 0 and bool(real)) if int(m.group(3)) > 0 else False
                if int(m.group(3)) > 0 and not real:
                    reproduced[prof] = None
                notes.append("%s: %s passed, %s failed%s" % (prof, m.group(2), m.group(3),
                                                            (" :: " + pm[0].replace("\n", " ")) if pm else ""))
    finally:
        open(src, "w").write(s)
    if reproduced.get("dev") or reproduced.get("release-like"):
        return True, "; ".join(notes)
    if reproduced.get("dev") is None and reproduced.get("release-like") is None:
        return None, "; ".join(notes)
    return False, "; ".join(notes)


# ----------------------------------------------------------------------------- known findings
def load_known():
    if not os.path.exists(KNOWN):
        return []
    return json.load(open(KNOWN)).get("findings", [])


def match_known(prop, h, failed_checks, known):
    """Each failing check must match a *known* (not fixed) entry of this property+harness, by assertion role."""
    matched, unmatched = [], []
    for f in failed_checks:
        hit = None
        for k in known:
            if k.get("status") != "known" or k["property"] != prop:
                continue
            if k.get("harness") and not re.fullmatch(k["harness"], h.name):
                continue
            if re.search(k["role"], f["desc"]):
                hit = k
                break
        (matched if hit else unmatched).append((f, hit))
    return matched, unmatched


# ----------------------------------------------------------------------------- main
def main(argv):
    import argparse
    ap = argparse.ArgumentParser()
    ap.add_argument("prop")
    ap.add_argument("--tier", default=os.environ.get("VERIF_TIER", "quick"), choices=["quick", "thorough"])
    ap.add_argument("--only", default=None, help="regex on harness names (development aid; evidence says so)")
    ap.add_argument("--jobs", type=int, default=int(os.environ.get("VERIF_JOBS", "12")))
    ap.add_argument("--keep", action="store_true")
    ap.add_argument("--replay", default=None, help="re-run a stored replay file natively")
    ap.add_argument("--no-evidence", action="store_true")
    ap.add_argument("--patch", action="append", default=[], help="development aid: apply a patch to the scratch copy (never to /repo); implies --no-evidence")
    a = ap.parse_args(argv)
    prop = a.prop
    seed = int(os.environ.get("VERIF_SEED", "0") or 0)
    t0 = time.time()
    reg = registry()
    if prop not in P.PROPS:
        raise SystemExit("unknown or unclaimed property " + prop)
    # tier=manual harnesses (kept for bug hunting: they find counterexamples fast but their UNSAT proofs do not fit) are
    # selected only when named with --only
    sel = [h for h in reg.values() if prop in h.props and (h.tier == "quick" or (a.tier == "thorough" and h.tier == "thorough")
                                                           or (h.tier == "manual" and a.only))]
    if a.only:
        sel = [h for h in sel if re.search(a.only, h.name)]
    if not sel:
        raise SystemExit("no harness selected")
    # VERIF_SEED only permutes the order in which harnesses are scheduled (nothing else is random)
    sel.sort(key=lambda h: hashlib.sha256((str(seed) + h.name).encode()).hexdigest())
    # longest first within that is better for wall time
    try:
        timings = json.load(open(os.path.join(VERIF, "lib", "timings.json")))
    except Exception:
        timings = {}
    def _t(h):
        v = timings.get(h.name)
        return (v[0] if isinstance(v, list) else v) if v is not None else (h.timeout or 0)
    sel.sort(key=lambda h: -_t(h))
    for h in sel:       # expected peak memory: measured (plus a margin) where known, else the annotation
        v = timings.get(h.name)
        if isinstance(v, list) and v[1]:
            h.est = max(2, int(v[1] * 1.3 + 1))

    run_id = "%s-%s-%d-%d" % (prop, a.tier, os.getpid(), int(t0))
    files = set(h.file for h in sel)
    hf = scratch.harness_files()
    grew = True
    while grew:     # transitive `// @requires <file>` declarations of the harness files
        grew = False
        for rel in list(files):
            for m in re.finditer(r"^// @requires (\S+)", open(hf[rel]).read(), re.M):
                if m.group(1) not in files:
                    files.add(m.group(1)); grew = True
    files = sorted(files)
    try:
        if a.patch:
            a.no_evidence = True
        rundir, crate = scratch.make_scratch(run_id, files, a.patch)
    except FileNotFoundError as e:
        print("INCONCLUSIVE property=%s: repository file for a harness is missing: %s" % (prop, e))
        write_evidence(prop, a, seed, t0, sel, {}, [], [], ["source file missing: %s" % e], None)
        return 2
    os.makedirs(os.path.join(rundir, "logs"))
    rc = 2
    extra_rundirs = []
    try:
        if a.replay:
            h = next((h for h in sel if os.path.basename(a.replay)[:-3] == h.name), None)
            if h is None:
                raise SystemExit("replay file does not belong to a harness of %s" % prop)
            names = re.findall(r"fn (kani_concrete_playback_\w+)", open(a.replay).read())
            ok, note = run_replay(h, crate, os.path.abspath(a.replay), names, rundir)
            print("REPLAY %s: %s (%s)" % (a.replay, {True: "reproduces", False: "does NOT reproduce", None: "could not run"}[ok], note))
            return 1 if ok else (0 if ok is False else 2)
        dep = ensure_depcache(crate, os.path.join(rundir, "logs"))
        if dep is None:
            print("INCONCLUSIVE property=%s: the crate does not build under Kani (see DESIGN.md section 3)" % prop)
            txt = open(os.path.join(rundir, "logs", "_depbuild.log"), errors="replace").read()
            errs = re.findall(r"^error.*$", txt, re.M)[:8]
            print("\n".join(errs))
            write_evidence(prop, a, seed, t0, sel, {}, [], [], ["build failed: " + "; ".join(errs)], None)
            return 2
        cap = TIER_CAP[a.tier]
        jobs = [(h, min(h.timeout or cap, cap) if a.tier == "quick" else (h.timeout or cap)) for h in sel]

        def on_done(h, r):
            print("  [%7.1fs] %-44s %-8s %s" % (r["wall_s"], h.name, r["status"], r["detail"][:160]), flush=True)

        print("check %s tier=%s harnesses=%d jobs=%d scratch=%s" % (prop, a.tier, len(sel), a.jobs, rundir), flush=True)
        results = run_pool(jobs, crate, dep, rundir, min(a.jobs, len(jobs)), on_done)

        # A harness file that no longer compiles (typically a one-step lemma whose private helper function changed its
        # signature) breaks the build for every harness of the run.  Retry the harnesses of the OTHER files without it:
        # they are reported normally, the harnesses of the broken file stay INCONCLUSIVE (COMPILE).
        comp = [h for h in sel if results[h.name]["status"] == "COMPILE"]
        if comp:
            text = open(results[comp[0].name]["log"], errors="replace").read()
            # (only ERROR locations count: warnings carry `-->` lines too)
            broken = set(rel for rel in files if re.search(r"(?m)^error[^\n]*\n\s*-->\s*\S*harness/%s:\d+" % re.escape(rel), text))

            def need(rel, seen=None):
                seen = seen if seen is not None else set()
                if rel in seen:
                    return seen
                seen.add(rel)
                for m in re.finditer(r"^// @requires (\S+)", open(hf[rel]).read(), re.M):
                    need(m.group(1), seen)
                return seen
            retry = [h for h in comp if not (need(h.file) & broken)]
            if broken and retry and "lib.rs" not in broken:
                files2 = sorted(set().union(*[need(h.file) for h in retry]))
                print("  harness file(s) %s do not compile against this source; retrying %d harness(es) of the other files without them"
                      % (", ".join(sorted(broken)), len(retry)), flush=True)
                rundir2, crate2 = scratch.make_scratch(run_id + "-b", files2, a.patch)
                os.makedirs(os.path.join(rundir2, "logs"))
                try:
                    jobs2 = [(h, t) for (h, t) in jobs if h in retry]
                    res2 = run_pool(jobs2, crate2, dep, rundir2, min(a.jobs, len(jobs2)), on_done)
                    for h in retry:
                        results[h.name] = res2[h.name]
                        results[h.name]["crate"] = crate2
                        results[h.name]["rundir"] = rundir2
                finally:
                    extra_rundirs.append(rundir2)

        known = load_known()
        violations, known_hits, inconclusive = [], [], []
        for h in sel:
            r = results[h.name]
            if r["status"] == "PASS":
                continue
            if r["status"] == "FAIL":
                real = [f for f in r["parsed"]["failed"] if "unwinding assertion" not in f["desc"]
                        and "with missing definition is unreachable" not in f["desc"]]
                matched, unmatched = match_known(prop, h, real, known)
                for f, k in matched:
                    known_hits.append((h, f, k))
                if unmatched:
                    ok, rpath, note = playback(h, r.get("crate", crate), r["slot_target"], r.get("rundir", rundir), prop)
                    r["replay"] = {"reproduced": ok, "path": rpath, "note": note}
                    if ok:
                        violations.append((h, [f for f, _ in unmatched], rpath, note))
                    else:
                        inconclusive.append((h, "counterexample did not reproduce natively (%s): %s" % (note, r["detail"][:300])))
            else:
                inconclusive.append((h, "%s: %s" % (r["status"], r["detail"][:300])))
        seen = set()
        for h, f, k in known_hits:
            key = (k["id"])
            if key in seen:
                continue
            seen.add(key)
            print("KNOWN-FINDING: property=%s %s [%s: %s]" % (prop, k["what"], h.name, f["desc"]))
        for h, fs, rpath, note in violations:
            print("VIOLATION property=%s replay=%s" % (prop, rpath))
            for f in fs:
                print("    harness %s: %s  at %s" % (h.name, f["desc"], f["loc"]))
            print("    native replay: " + note)
        for h, why in inconclusive:
            print("INCONCLUSIVE property=%s harness=%s %s" % (prop, h.name, why))
        if not a.no_evidence:
            write_evidence(prop, a, seed, t0, sel, results, violations, known_hits,
                           ["%s: %s" % (h.name, w) for h, w in inconclusive], rundir)
        if violations:
            rc = 1
        elif inconclusive:
            rc = 2
        else:
            rc = 0
            print("OK property=%s tier=%s: %d harnesses decided, %d solver checks, %.0fs" % (
                prop, a.tier, len(sel), sum(r["parsed"]["checks"] for r in results.values()), time.time() - t0))
        return rc
    finally:
        if a.keep:
            print("scratch kept at " + rundir)
        else:
            scratch.remove(rundir)
            for d in extra_rundirs:
                scratch.remove(d)


def write_evidence(prop, a, seed, t0, sel, results, violations, known_hits, inconclusive, rundir):
    meta = P.PROPS[prop]
    samples, covers_ok, checks, solver_s, symex_s, steps, vars_, clauses, decisions = [], 0, 0, 0.0, 0.0, 0, 0, 0, 0
    discharged = 0
    cover_descs = set()
    funcs = set(meta.get("functions", []))
    for h in sel:
        r = results.get(h.name)
        if not r:
            continue
        p = r["parsed"]
        checks += p["checks"]
        solver_s += p["solver_s"]
        symex_s += p["symex_s"]
        steps += p["steps"]
        vars_ = max(vars_, p["vars"])
        clauses = max(clauses, p["clauses"])
        decisions += p["decisions"]
        sat = [c["desc"] for c in p["covers"] if c["status"] == "SATISFIED"]
        for c in sat:
            cover_descs.add((h.name, c))
        if r["status"] == "PASS":
            discharged += 1
        for fn in h.funcs.split(","):
            if fn.strip():
                funcs.add(fn.strip())
        samples.append({"harness": h.full, "bound": h.bound, "status": r["status"], "wall_s": r["wall_s"],
                        "solver_checks": p["checks"], "unreachable_checks": p["unreachable"],
                        "cover_witnesses_satisfied": sat, "program_steps": p["steps"],
                        "sat_vars": p["vars"], "sat_clauses": p["clauses"], "peak_rss_gb": p.get("peak_rss_gb"),
                        "detail": r["detail"][:400], "replay": r.get("replay")})
    ev = {
        "property_id": prop, "tier": a.tier, "seed": seed, "level": "model_checking",
        "coverage": {
            "evaluations": max(checks + decisions, 0),
            "distinct_nontrivial": len(cover_descs),
            "rule": "One evaluation = one solver-decided check: every assertion / overflow / bounds / unwinding check that CBMC "
                    "decided for a harness (all symbolic inputs within the stated bound at once) plus every SAT call for a cover "
                    "witness. distinct_nontrivial = number of distinct kani::cover! witnesses the solver SATISFIED, i.e. named "
                    "non-trivial regions of the input/state space (cut inside a length prefix, buffer compaction moved data, ...) "
                    "shown to be reachable inside the harness, so the PASS verdicts are not vacuous there.",
            "samples": samples,
            "obligations": len(sel), "discharged": discharged,
            "harnesses": len(sel),
            "solver_checks": checks, "sat_calls": decisions,
            "program_steps_total": steps, "max_sat_vars": vars_, "max_sat_clauses": clauses,
            "solver_time_s": round(solver_s, 2), "symex_time_s": round(symex_s, 2),
            "functions_encoded": sorted(funcs),
            "bounds": meta.get("bounds", ""),
            "outside_bounds": meta.get("outside", ""),
            "checker_cmd": "cargo kani (Kani 0.68.0, CBMC 6.11.0, CaDiCaL) --exact --harness <h> -Z stubbing, unwinding assertions on",
            "trusted_base": ["rustc front end", "Kani MIR->GOTO lowering", "CBMC 6.11.0", "CaDiCaL"],
            "only_filter": a.only,
            "known_findings_reported": sorted(set(k["id"] for _, _, k in known_hits)),
            "inconclusive": inconclusive,
            "exhaustive": False,
        },
        "assumptions": meta.get("assumptions", []) + P.COMMON_ASSUMPTIONS,
        "wall_s": round(time.time() - t0, 1),
        "violations": len(violations),
    }
    os.makedirs(os.path.join(VERIF, "evidence"), exist_ok=True)
    with open(os.path.join(VERIF, "evidence", prop + ".json"), "w") as f:
        json.dump(ev, f, indent=1)


if __name__ == "__main__":
    sys.exit(main(sys.argv[1:]))
