"""Per-property metadata for the evidence files (what is encoded, bounds, assumptions)."""

COMMON_ASSUMPTIONS = [
    "E1: tracing replaced by a no-op shim in the solver build (log output outside the claim)",
    "dev profile semantics (debug assertions and overflow checks ON), as modelled by Kani",
    "results are bounded: they hold for all inputs within the per-harness bound stated in samples[].bound and say nothing beyond it",
    "harness results are mem::forget-ed where noted (memory reclamation outside the claim)",
]

HOOK_COMMITS = []
NOTES = ("Solver-based checking (Kani/CBMC) of the real code. Exit 0 = all harnesses of the tier decided and held; "
         "exit 1 + VIOLATION line = counterexample found by the solver and reproduced natively; exit 2 = INCONCLUSIVE "
         "(build failure, timeout, OOM, vacuous harness, non-reproducing counterexample) - never a pass.")
NOT_APPLICABLE = {}

PROPS = {
    "C15": {
        "functions": ["protocol::varint::VarInt::read", "VarInt::write", "TryFrom<u32> for VarInt", "TryFrom<usize> for VarInt",
                      "From<VarInt> for u32", "TryFrom<VarInt> for usize", "From<u8|u16> for VarInt"],
        "bounds": "full width: every u32/usize value, every 5-byte input and truncation; no loops in the code under test",
        "outside": "Read/Write implementors other than &[u8], &mut [u8], Vec<u8> (generic code, instantiation-specific)",
        "assumptions": [],
        "level_text": "Bounded model checking at full width: every u32/usize value and every 5-byte input with every truncation is covered by one solver query per harness; the code under test has no loops, so no unwinding bound limits the claim for the three Read/Write instantiations checked.",
        "level_note": "Trusts rustc, Kani's lowering, CBMC, CaDiCaL. Instantiations: Read=&[u8], Write=&mut [u8] and Vec<u8>. Other Read/Write implementors are outside the claim.",
    },
    "C06": {
        "claimed": False,
        "functions": ["Config::aligned_bufsize"],
        "bounds": "", "outside": "", "assumptions": [],
    },
    "C17": {"claimed": False, "functions": [], "bounds": "", "outside": "", "assumptions": []},
    "C18": {"claimed": False, "functions": [], "bounds": "", "outside": "", "assumptions": []},
    "C16": {"claimed": False, "functions": [], "bounds": "", "outside": "", "assumptions": []},
    "C19": {"claimed": False, "functions": [], "bounds": "", "outside": "", "assumptions": []},
    "C20": {"claimed": False, "functions": [], "bounds": "", "outside": "", "assumptions": []},
    "C01": {"claimed": False, "functions": [], "bounds": "", "outside": "", "assumptions": []},
    "C02": {"claimed": False, "functions": [], "bounds": "", "outside": "", "assumptions": []},
    "C03": {"claimed": False, "functions": [], "bounds": "", "outside": "", "assumptions": []},
    "C04": {"claimed": False, "functions": [], "bounds": "", "outside": "", "assumptions": []},
    "C05": {"claimed": False, "functions": [], "bounds": "", "outside": "", "assumptions": []},
    "C07": {"claimed": False, "functions": [], "bounds": "", "outside": "", "assumptions": []},
    "C08": {"claimed": False, "functions": [], "bounds": "", "outside": "", "assumptions": []},
    "C09": {"claimed": False, "functions": [], "bounds": "", "outside": "", "assumptions": []},
    "C10": {"claimed": False, "functions": [], "bounds": "", "outside": "", "assumptions": []},
    "C11": {"claimed": False, "functions": [], "bounds": "", "outside": "", "assumptions": []},
    "C12": {"claimed": False, "functions": [], "bounds": "", "outside": "", "assumptions": []},
    "C13": {"claimed": False, "functions": [], "bounds": "", "outside": "", "assumptions": []},
    "C14": {"claimed": False, "functions": [], "bounds": "", "outside": "", "assumptions": []},
}
