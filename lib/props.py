"""Per-property metadata: what is claimed, encoded, bounded, assumed.  Single source for MANIFEST.json and evidence."""

COMMON_ASSUMPTIONS = [
    "E1: tracing replaced by a no-op shim in the solver build (log output and the trace-more feature are outside the claim)",
    "dev-profile semantics (debug assertions and overflow checks ON), as modelled by Kani",
    "bounded claim: holds for ALL inputs/states within the per-harness bound listed in coverage.samples[].bound; says nothing beyond it",
    "results are mem::forget-ed where noted (memory reclamation outside the claim)",
    "trusted: rustc front end, Kani MIR->GOTO lowering, CBMC 6.11, CaDiCaL; std / third-party crates are executed symbolically but are not the subject",
]

HOOK_COMMITS = []
NOTES = ("Solver-based checking (Kani 0.68 / CBMC 6.11) of the real code; harnesses in harness/**.rs are attached to a scratch "
         "copy of /repo's working tree on every run. Exit 0 = every harness of the tier was decided by the solver and held (listed "
         "known findings print KNOWN-FINDING lines); exit 1 + VIOLATION line = counterexample found by the solver and reproduced by a "
         "native replay; exit 2 = INCONCLUSIVE (build failure, timeout, out of memory, vacuous harness, non-reproducing "
         "counterexample) - never reported as a pass.")
NOT_APPLICABLE = {}

E2 = "E2: std::hash::RandomState::new stubbed to fixed keys (getrandom is unsupported by Kani); hash-flooding resistance outside the claim"
E3 = "E3: compact_str::repr::ensure_read (inline-asm register barrier) stubbed by the identity function"
E4 = ("E4: in FRAMING harnesses ParamsStateInner::make_cgivar is a model that records the raw name bytes (ghost log) and returns "
      "fixed interned names; HashMap::insert is a model that records the value bytes (E4b); in parse_stream harnesses hashbrown's "
      "insert is a no-op (E4c: names observed, values only in the thorough-tier real-map harness). Map semantics = std HashMap given lawful Eq/Hash (C19)")
E5 = ("E5: inside parser-level harnesses ProtocolVariables::parse_name is a model (one-byte names A/B/C stand for the three variables) and "
      "ProtocolVariables::write_response is a model (4 marker bytes carrying the variable set); the real functions are checked by c17_parse_name_* / c17_wr_*")
E5B = ("E5b: NonZeroUsize::to_compact_string (third-party compact_str/castaway/itoa) replaced by a model that returns the decimal digits "
       "chosen symbolically by the harness (max_conns is computed FROM the digits, so no division is needed); compact_str's formatting is outside the claim")
E8 = ("E8: GOTO-level cuts applied by a goto-instrument wrapper before CBMC: (ioerr) the body of io::Error's repr Drop is empty - dropping "
      "an io::Error is a leak; (nogrow) Vec/SmallVec reallocation functions are replaced by assert(false);assume(false), i.e. the solver "
      "proves no reallocation happens within the bound (harness buffers are pre-sized)")
E7 = ("E7: transport = nondeterministic stub: every poll_read / poll_write(_vectored) returns Pending, Ready(Ok(k)) for symbolic 1<=k<=len, "
      "Ok(0) or Err within the stated call budget; waker = no-op; Kani executes atomics sequentially (no thread interleavings)")

TECH = "bounded model checking of the compiled Rust code (Kani 0.68 -> CBMC 6.11 -> CaDiCaL): symbolic inputs and symbolic private state, unwinding assertions on, cover witnesses against vacuity, counterexamples replayed natively (harnesses that replace a function by a model/contract stub report the counterexample at the level of that model instead: Kani's native playback cannot apply stubs)"

PROPS = {
    "C00": {"claimed": False},
    "C99": {"claimed": False},
    "C15": {
        "functions": ["VarInt::read", "VarInt::write", "TryFrom<u32|usize> for VarInt", "From<VarInt> for u32", "TryFrom<VarInt> for usize", "From<u8|u16> for VarInt"],
        "bounds": "full width: every u32 / usize value, every 5-byte input with every truncation 0..5; the code under test has no loops",
        "outside": "Read/Write implementors other than &[u8], &mut [u8], Vec<u8> (generic code; one harness per instantiation)",
        "assumptions": [],
        "level_text": "Bounded model checking at full width: one solver query per harness covers all 2^32 (2^64) values and all 2^40 five-byte inputs with every truncation; no unwinding bound restricts the claim because the code has no loops.",
        "level_note": "Instantiations Read=&[u8], Write=&mut [u8] and Vec<u8>. Trusts rustc, Kani lowering, CBMC, CaDiCaL.",
    },
    "C16": {
        "functions": ["NVIter::new", "NVIter<&[u8]>::next", "NVIter<&mut [u8]>::next", "NVIter::size_hint", "NVIter::into_inner", "nv::write", "Bytes for &[u8] / &mut [u8]"],
        "bounds": "decoder: every byte string of length 0..8 (quick) / 0..11 (thorough) decoded to exhaustion against a loop-free reference, prefix law for every prefix, shared vs mutable in lockstep; encoder: two pairs with lengths 0..3 into every capacity 0..20, and single pairs at 127/128/129 bytes with symbolic contents",
        "outside": "inputs longer than 11 bytes; lists of more than 5 pairs; names/values > 129 bytes (length prefixes up to 2^31-1 ARE covered: the 4 prefix bytes are symbolic); nv::write's rejection of lengths > 2^31-1 is covered at VarInt::try_from(usize) (C15) because such a slice cannot be built",
        "assumptions": [],
        "level_text": "Bounded model checking: all byte strings up to the length bound at once (2^64 contents x 9 lengths in quick), iterator run to exhaustion, each item compared by pointer offset and length with a reference decoder; round trips with symbolic contents across the 1-byte/4-byte length boundary.",
        "level_note": "Unwinding assertions on (bound = max pairs + 2). Slice comparisons are written without memcmp.",
    },
    "C17": {
        "functions": ["RecordHeader::{from_bytes,to_bytes,new,set_lengths,padding_bytes,is_management}", "UnknownType/BeginRequest/EndRequest::{from_bytes,to_bytes,to_record}",
                      "Version/RecordType/Role/ProtocolStatus::try_from", "RequestFlags::{from,validate}", "From<ExitStatus> for EndRequest", "make_request_epilogue", "ProtocolVariables::write_response<Vec<u8>|SmallVec<[u8;104]>>"],
        "bounds": "fixed-size codecs: all 2^64 eight-byte strings / all field values; set_lengths: all 65536 lengths; epilogue: every ExitStatus x id for the stream lists [], [Stdout,Stderr] ([Stderr] thorough); write_response: concrete variable subset per harness (quick: 000,010,101,111; thorough: all 8) x EVERY max_conns with 1, 2, 20 digits (thorough: 1,2,3,10,19,20) x Vec / SmallVec targets pre-filled with 0..3 bytes",
        "outside": "decimal lengths of max_conns not instantiated (4-9, 11-18 digits); compact_str's integer formatting itself (E5b); ProtocolVariables::parse_name on arbitrary bytes is checked only for the exact names and near misses (c17_parse_name)",
        "assumptions": [E3, E5B],
        "level_text": "Bounded model checking, full width for every fixed-size codec (no loops, no bound); GetValuesResult generation checked byte for byte against the specification for every connection limit inside a decimal-length class.",
        "level_note": "write_response is checked with compact_str's to_compact_string replaced by a digit model (E5b) because the third-party conversion explores 30 type-dispatch arms (3.2 M symex steps per call).",
    },
    "C18": {
        "functions": ["Role::{input_streams,next_input_stream,output_streams}", "cmp_input_streams", "stream::Parser::{set_stream,active_stream,discard_stream}", "stream::Parser::parse_head", "stream::Parser::parse_payload"],
        "bounds": "role tables: complete finite tables; set_stream: 24-byte buffer with symbolic contents and every geometry, every role / current selection / State / payload_rem / padding_rem, requested selection None or any of the 11 record types, two consecutive calls; delivery: parse_head for every 8-byte header from every record-boundary state, parse_payload from every state (delivery only in State::Stream)",
        "outside": "buffers larger than 24 bytes; the panic of async Request::set_stream on rejection is a one-line expect() and not separately checked",
        "assumptions": [E2],
        "level_text": "Bounded model checking: the finite order tables are decided completely; set_stream and the header dispatch are one-step lemmas from an ARBITRARY parser state (all private fields symbolic under the representation invariant), so they hold after every history of calls.",
        "level_note": "State is constructed directly through the private fields (harness module is a child of parser::stream). A genuine defect (debug-assertion panic for non-stream record types) was found by this check and repaired in /repo ccaa05e.",
    },
    "C02": {
        "functions": ["stream::Parser::{compress,consume_stream,discard_stream,consume_output,output_buffer,stream_buffer,input_buffer}", "stream::Parser::parse_payload (Stream/Skip/Values)", "stream::Parser::parse_head", "stream::Parser::parse (loop glue)"],
        "bounds": "24-byte buffer with symbolic contents, EVERY geometry parsed_start<=gap_start<=raw_start<=free_start<=24, payload_rem 0..65535, padding_rem 0..255, every role/id/active stream; dest None or Some(len 0..24); Values: 1..6 raw bytes; parse() glue: <= 9 raw bytes (at most one following header); whole parse(): the trace [Stdin(3) | unknown type | Stdin end] cut at every offset (dest None) and [Stdin(2) | Stdin(1)] delivered directly into a caller buffer of 2..4 bytes in ONE call (c02_parse_two_records_dest)",
        "outside": "buffers larger than 24/32 bytes (the code has no size-dependent branch other than the index arithmetic that is symbolic here - stated, not proved); whole-parse() runs other than the two concrete-shaped traces; Clone of a parser",
        "assumptions": [E2, E5, E8],
        "level_text": "Bounded model checking of one-step lemmas from an arbitrary parser state: each buffer operation and each phase of parse() is compared with a reference over the abstract state (parsed bytes, raw bytes, pending output, record accounting). Because the start state is arbitrary under the representation invariant - which each lemma re-establishes - the lemmas compose to every history of caller actions and every chunking.",
        "level_note": "The composition (lemmas => every history) is a written argument in DESIGN.md section 7/C02; each lemma is a solver query.",
    },
    "C03": {
        "functions": ["request::{SkipState,GetValuesState,HeaderState,ParamsState}::drive", "request::Parser::{parse,move_input,into_request,into_stream_parser}", "stream::Parser::{parse,parse_head,parse_payload,into_input,into_request_parser}", "RecordHeader::from_bytes", "NVIter::next"],
        "bounds": "every harness of C01/C02/C04/C05/C06/C16 runs with Kani's panic / overflow / bounds / unwrap / debug_assert checks from arbitrary states and arbitrary bytes (no well-formedness assumption); inputs 0..24 symbolic bytes per call; one-cut lemma for SkipState; sticky Fatal for every error kind and every later parse(n)",
        "outside": "chunking-invariance of whole multi-record executions is by composition of the per-state lemmas (consumption per call is a function of state and bytes), not one query; replace_with's panic path (Fatal(Paniced)) is unreachable when no panic is reachable and is not exercised",
        "assumptions": [E2, E4, E5, E8],
        "level_text": "Bounded model checking: totality (no panic, no overflow, no out-of-bounds, loops bounded by unwinding assertions) and state-machine lemmas from arbitrary states on arbitrary bytes; fatal states are shown absorbing and output-free.",
        "level_note": "Hanging is excluded by unwinding assertions: a loop that failed to make progress would exceed its bound.",
    },
    "C04": {
        "functions": ["request::GetValuesState::drive", "request::HeaderState::drive", "request::ParamsState::drive", "stream::Parser::parse_head", "stream::Parser::parse_payload (Values)", "stream::Parser::consume_output", "ProtocolVariables::write_response"],
        "bounds": "every header (2^64) in HeaderState / ParamsState / stream parse_head; GetValues bodies of 2,3,4 (thorough 6) symbolic bytes with symbolic payload_rem / padding_rem and any accumulated set; replies compared byte for byte (type, id, status, body) and `out` growth checked in EVERY arm including the no-reply arms",
        "outside": "GetValues bodies longer than 6 bytes; the real variable names inside parser harnesses (E5: one-byte model names; the real name table is checked in c17_parse_name); ordering across more than one record per call is by the left-to-right loop (composition)",
        "assumptions": [E2, E5, E8],
        "level_text": "Bounded model checking: for every possible header and every state the bytes appended to the output are exactly the prescribed reply or nothing, and the reported counts equal the bytes appended.",
        "level_note": "E5 models are part of the claim; the real write_response is C17's subject.",
    },
    "C05": {
        "functions": ["request::Parser::{move_input,into_request,into_stream_parser,from_parser}", "stream::Parser::{into_input,into_request_parser,discard_stream,compress,from_parser}", "request::Parser::parse (carry-over)"],
        "bounds": "24-byte buffer, every input_len / geometry / amount of look-ahead 0..24 (incl. mid-header), every payload_rem/padding_rem for the record-boundary guard",
        "outside": "the k-sequential-requests consequence is compositional (hand-off lemmas + C01/C02), no end-to-end chain harness",
        "assumptions": [E2],
        "level_text": "Bounded model checking: each hand-off keeps exactly the unread bytes, in order (content compared at a symbolic index), for every amount of look-ahead and every buffer geometry.",
        "level_note": "",
    },
    "C06": {
        "functions": ["Config::aligned_bufsize", "request::Parser::parse (stuck detection)", "request::Parser::input_buffer", "ParamsStateInner::{parse_stream,parse_buffered}"],
        "bounds": "aligned_bufsize: every usize <= isize::MAX (full width), plus no-overflow for larger values; stuck <=> full: parse() glue for EVERY outcome of State::drive (drive replaced by a nondeterministic stub); per-call progress of parse_stream / parse_buffered (only whole pairs consumed, one incomplete unit retained) within the C01 bounds",
        "outside": "the sufficiency clause (pairs <= B-13 never get stuck, for every segmentation) is NOT decided end to end: it follows from the per-call progress lemmas only by a written argument; buffer sizes other than 24 in parser harnesses",
        "assumptions": [E2, E4, E8],
        "level_text": "Bounded model checking: rounding rule at full width; 'not finished => input space offered, else StuckOnInput in this very call' for every drive outcome.",
        "level_note": "buffer_size > isize::MAX cannot be allocated (Parser::new panics with capacity overflow), so 'effective buffer' does not exist there; for > usize::MAX-7 aligned_bufsize returns usize::MAX (not a multiple of 8) - unobservable through the public API.",
    },
    "C01": {
        "functions": ["request::HeaderState::drive", "request::ParamsState::drive", "ParamsStateInner::{parse_buffered,parse_stream,make_cgivar}", "SkipState<ParamsStateInner|Request>::drive", "OwnedVarName::from_compact"],
        "bounds": "BeginRequest: every 16-byte record; framing: every payload_rem/padding_rem, 0..24 symbolic input bytes, every following header; parse_stream WITH a carried-over pair (c01_parse_stream_carry_*: 1 carried byte + 2 record bytes quick; 1+5 and 2+4 thorough: reassembled pair, following pairs, tail and the consumed count against a reference decoding of carry ++ data); cross-record reassembly: carry-over buffer of 1,2,3,5 (thorough 8) symbolic bytes + 0..6 new bytes + symbolic rec_end (both 1- and 4-byte length prefixes, cuts inside a prefix, pairs spread over 3+ records); in-place pass: records of 3 and 5 (thorough 7) symbolic bytes",
        "outside": "environment equality end to end is compositional (framing lemmas + name lemma + C19 + std HashMap), not one query; pairs larger than the byte bounds; make_cgivar's lossy UTF-8 + interning on symbolic bytes only up to 3 bytes (c19_constructors) and concrete interned names",
        "assumptions": [E2, E3, E4, E8],
        "level_text": "Bounded model checking of the per-state lemmas of the preamble parser from arbitrary states: the sequence of (name bytes, value bytes) handed to the environment equals the name-value decoding of carry-over + consumed bytes, for every cut.",
        "level_note": "E4/E4b/E4c models are part of the claim (real hashbrown probing is intractable under CBMC: every control-group lane is explored).",
    },
    "C19": {
        "functions": ["VarName::{eq,cmp,partial_cmp,hash,new}", "OwnedVarName::{eq,cmp,hash,as_ref,borrow,from_mut_str,from_compact}", "From<&str|String|Cow|&VarName|StaticVarName> for OwnedVarName", "StaticVarName::{cmp,as_ref}"],
        "bounds": "VarName laws: two strings of 0..18 bytes (ASCII + one optional 2-byte scalar) against a byte-wise reference order (a total order, so antisymmetry/transitivity/consistency follow), hash as recorded write sequence (any hasher); representations: 4 interned names x every case pattern x Custom/Static; constructors on 0..3-byte strings",
        "outside": "strings longer than 18 bytes; phf lookups on fully symbolic strings >= 4 bytes; From<&HeaderName> (http feature) not checked",
        "assumptions": [E3],
        "level_text": "Bounded model checking: equality, order and hash input are compared with a reference (ASCII-uppercased byte string) for all pairs of strings within the bound, crossing the 16-byte hashing chunk.",
        "level_note": "",
    },
    "C20": {
        "functions": ["cgi::response::simple_redirect", "cgi::response::write_headers"],
        "bounds": "redirect: location 0..6 symbolic ASCII bytes, capacity 0..24; headers: status 200 / 404 / 999 (custom reason) with 0..2 headers of 0..3 symbolic bytes each, capacity 0..64, every status 100..999 without headers; length-abstract instances (harness writer that counts accepted bytes and records the byte at one symbolic offset): status 200 with two headers of 0..320-byte names and values (symbolic lengths and contents, room 0..1400), redirect location 0..320 bytes (room 0..400)",
        "outside": "names/values/locations longer than 320 bytes, more than 2 headers; the length-abstract instances compare the content at one symbolic offset, which the solver decides for every offset (output differs from the grammar iff it differs at some offset), and use status 200 only; http_headers (delegates); Vec writer (cannot fail)",
        "assumptions": [E8],
        "level_text": "Bounded model checking: output and returned count equal the documented grammar byte for byte, and Err <=> capacity < length for every capacity.",
        "level_note": "http::StatusCode::{as_str,canonical_reason} are trusted (third-party).",
    },
    "C08": {
        "functions": ["Request::poll_input", "Request::poll_output", "Token::parse_request", "RepeatableLockFuture::poll"],
        "bounds": "one poll of poll_read from a symbolic request state (0..2 stream bytes buffered, 0|2 reply bytes pending, caller buffer 0..4) and up to 3 polls of parse_request (0..24 handed-over bytes), each against the PARSER CONTRACT (any consumption, 0|2 reply bytes per parse call, any delivery <= 3 bytes, end of stream, <= 1 error); reader <= 2 reads + <= 1 Pending + EOF/error; writer <= 1 short write + <= 1 Pending",
        "outside": "the real parsers inside the async functions (the contract stub stands for them; what they really do is C01-C06); more than the stated transport budgets; multi-task schedules; whole Token::run executions. Concrete-trace harnesses with the real parser (tier=manual) find the pre-fix defect in 215 s but their proofs on the fixed tree do not fit in 20 GB",
        "assumptions": [E2, E7, E8, "parser contract stubs sv::parse_contract / rv::rparse_contract / sv::compress_contract replace stream::Parser::parse, request::Parser::parse, compress"],
        "level_text": "Bounded model checking of the suspension points of the connection task: whenever poll_read / parse_request return Pending because the READER is not ready, the parser's output buffer is empty, every reply byte produced so far has been accepted by the transport, every byte read has been handed to the parser, and (parse_request) the handed-over bytes have been parsed at least once - for every behaviour the parser contract allows.",
        "level_note": "A genuine defect was found here and repaired (/repo 6faef83); known_findings.json lists it as fixed (suppresses nothing). The claim is about the glue for ANY parser behaviour; that the parser processes every complete record per call is C01/C02.",
    },
    "C09": {
        "functions": ["Request::poll_read (AsyncRead)", "Request::poll_fill_buf / consume (AsyncBufRead)", "Request::{new,is_writeable,output_stream}", "Request::poll_input", "Request::poll_output", "stream::Parser::{set_stream,consume_stream,stream_buffer}", "stream::Parser::parse (concrete-shaped trace, every cut)", "Role::{input_streams,next_input_stream}"],
        "bounds": "glue: as C08 (one poll, symbolic state, parser contract with a ghost stream of 8 symbolic bytes); stream selection: c18_set_stream (every state); real parser on the trace [Stdin(3 bytes, pad 5) | unknown type | Stdin end] cut at every offset 0..32",
        "outside": "AsyncBufRead has one harness of its own (c09_glue_fill_buf: one poll_fill_buf + consume from the symbolic state), not a multi-call one; writeable gating: Request::new (every role), output_stream() refusing a not-writeable request (should_panic harness), poll_input making a Filter request writeable only on - and on - its final stream (c09_glue_writeable_gate); the await-able writeable() itself only through c11_close_not_writeable; sequences of polls follow by induction over the symbolic state, not by a multi-poll query",
        "assumptions": [E2, E5, E7, E8, "parser contract stubs (see C08)"],
        "level_text": "Bounded model checking: bytes handed to the caller are exactly the bytes the parser delivered, in order and once (ghost stream), buffered data is served first without touching parser or transport, a 0-byte read happens only at end of stream, a Pending result never loses delivered bytes.",
        "level_note": "",
    },
    "C10": {
        "functions": ["StreamWriter::poll_write", "Request::poll_output (lock across a partially written reply)", "RepeatableLockFuture::{new,poll}", "RecordHeader::{set_lengths,to_bytes,padding_bytes}", "futures_util::lock::Mutex (uncontended)"],
        "bounds": "one writer (Stdout|Stderr, any id), payload of 3 and 8 (thorough 9) symbolic bytes; the transport checks EVERY vectored write against the one expected record (offered bytes == exactly the unsent rest: header, payload, zero padding) and accepts any 1..n bytes with <= 3 short writes (cuts inside the header, at both seams, inside the padding) and <= 1 Pending, after which the caller may come back with a buffer 2 bytes longer (the record still carries exactly the announced bytes and the announced length is reported); the output lock is held at every Pending and free after completion",
        "outside": "several writers on separately polled tasks (exclusion is checked as 'lock held while a record is in progress' - for StreamWriter records in c10_writer_*, for management replies written by poll_output from a mid-reply start state in c10_glue_reply_lock - not by interleaving two writers); payloads > 9 bytes incl. the 65535 cap (set_lengths and try_into().unwrap_or(u16::MAX) are covered for all u16 by c17_set_lengths only); poll_flush; real threads",
        "assumptions": [E7, E8, "nowaiters: the futures Mutex is never contended in a single-task harness (proved unreachable)"],
        "level_text": "Bounded model checking: for every split of the vectored writes the bytes reaching the transport are exactly one well-formed record with the written payload, the write reports the payload length, and the mutex guard spans the whole record.",
        "level_note": "",
    },
    "C11": {
        "functions": ["request::ParamsState::drive (abort during Params)", "stream::Parser::parse_head (abort during streams)", "From<parser::Error> for io::Error", "request::HeaderState::drive (stale records)", "From<ExitStatus> for EndRequest / make_request_epilogue", "Request::close (abort seen by writeable())", "Request::record_boundary (abort seen while draining)"],
        "bounds": "every header in every state (see C01/C02/C04): abort for the own id during Params => exactly one EndRequest(RequestComplete, 0, id) and return to the initial state; during streams => Err(AbortRequest) with the header retained (repeats); abort for other ids ignored; AbortRequest => io ConnectionAborted (and only it); ExitStatus::ABORT = Complete('ABRT'); close() of a not-yet-writeable request whose input ends with ConnectionAborted still sends EndRequest and keeps the connection (c11_close_not_writeable, poll_input contract); an AbortRequest seen while draining is ignored (c08_rb_*, parser contract)",
        "outside": "the handler-facing half in Token::run (ConnectionAborted from the handler => ExitStatus::ABORT => close) is a 5-line match that is not reached by any harness (Token needs async_lock/event-listener, see C13); 'the same connection then serves the next request' is compositional (C05 + c07_close_order_keep)",
        "assumptions": [E2, E4, E5, E8],
        "level_text": "Bounded model checking of the parser-side abort behaviour from arbitrary states plus the error-kind mapping; the connection-task half is outside (stated).",
        "level_note": "",
    },
    "C12": {
        "functions": ["Request::poll_input (EOF / read error)", "Request::poll_output (write error / zero-length write)", "StreamWriter::poll_write (write error / zero-length write)", "Token::parse_request (EOF / read error)", "From<parser::Error> for io::Error", "Request::record_boundary (EOF, fatal errors, no false EOF)"],
        "bounds": "glue harnesses of C08/C09: transport EOF or a one-shot error (BrokenPipe or Interrupted) after <= 2 reads at any point; at every exit the bytes handed to the parser are exactly the bytes read; poll_read fails with UnexpectedEof resp. the transport's error and never returns a successful empty read unless the stream ended; parse_request fails with ConnectionReset resp. the transport's error and never hands out a request after EOF/error; no spinning (bounded polls with unwinding assertions); write faults: c12_glue_write_fault (poll_output: error or Ok(0) at the 1st or 2nd write call) and c12_writer_fault_3 (StreamWriter: at the 1st..3rd vectored write)",
        "outside": "write faults inside close() / parse_request's write_all (futures_util) are not injected; whole Token::run termination; EOF at every byte offset of a real byte stream is replaced by EOF at every point of the contract-level execution",
        "assumptions": [E2, E7, E8, "parser contract stubs (see C08)"],
        "level_text": "Bounded model checking of the fault handling of the glue for every parser behaviour: read side (EOF / error at any point of the contract-level execution) and write side (error or zero-length write at the 1st..3rd write call of a management reply resp. an output record: the operation ends with that error / WriteZero, never Pending or success, nothing is offered to the transport afterwards, and what was offered before is a prefix of the expected record).",
        "level_note": "",
    },
    "C14": {
        "functions": ["WaitGroup::{new,add_task,tasks,into_future}", "WaitGroupFuture::poll", "Drop for WaitGroupInner", "TaskToken drop", "futures AtomicWaker::{register,wake}"],
        "bounds": "0..2 tokens, each dropped at a symbolic point: before the first poll, INSIDE AtomicWaker::register (the waker's clone callback runs after Weak::upgrade and before the registration is published - the window the property names), after the poll, or never; two polls; counting waker",
        "outside": "real thread interleavings inside Arc / AtomicWaker (Kani executes atomics sequentially); Runner::shutdown's notify and Token::run's behaviour at the different phases (in-flight request finishes, nothing new starts) - Token needs async_lock/event-listener (see C13)",
        "assumptions": ["sequential model of the interleaving: the 'other thread' acts at one of the four modelled points"],
        "level_text": "Bounded model checking: the shutdown future is Ready only when no token is alive, and whenever it returned Pending and the last token goes away afterwards (or inside the registration window) the registered waker is woken.",
        "level_note": "Partial: wait-group half of the property only.",
    },
    "C07": {
        "functions": ["Request::close", "Request::writeable", "Request::record_boundary", "make_request_epilogue", "From<ExitStatus> for EndRequest", "stream::Parser::into_request_parser", "Token::parse_request", "StreamWriter::poll_write"],
        "bounds": "close() decomposed along its four steps, each decided with the other steps trivially short: (1) tail - order of pending management replies vs epilogue, byte count, reuse iff KeepConn, look-ahead bytes handed to the next request parser (c07_close_order_*: request 7, Overloaded, 2 reply marker bytes, 3 look-ahead bytes, writer accepts every write at once; thorough: + 1 Pending, 1 short write); (2) a request that is not writeable yet - poll_input replaced by its contract (c11_close_not_writeable); (3) draining unread input - record_boundary on its own against the parser contract, two reads of any size incl. one that fills the 24-byte buffer (c07_rb_two_reads), reader/writer Pending (c08_rb_*); (4) epilogue bytes for every ExitStatus x id (c17_epilogue_*); plus parse_request glue (C08 bounds) and output records (C10 bounds)",
        "outside": "close() is never run end to end with a draining loop AND a Pending transport in one query (the pieces are composed by argument: the steps are sequential and share only the Request state each harness starts from symbolically or at a boundary); exactly-one-handler-invocation and the request loop of Token::run (Token needs async_lock/event-listener, see C13); byte-exact wire image of close() as a whole (c07_close_keep_writeable / c07_close_nokeep with the byte-checking transport stay tier=manual: 20 GB are not enough)",
        "assumptions": [E2, E7, E8, "parser contract stubs (see C08); poll_input contract stub in c11_close_not_writeable; 'noparse'/'nopollinput': in harnesses that start at a record boundary / writeable, parse, poll_output resp. poll_input are PROVED unreachable"],
        "level_text": "Bounded model checking of close() step by step (ordering of replies and epilogue, reuse decision, draining without false EOF, abort tolerance) and of the building blocks of the end-of-request protocol; the per-connection statement (one handler call per request) is outside and said so.",
        "level_note": "Partial claim; see 'outside'. Seeded change C07-b (compress hoisted out of the draining loop) is caught. Seeded change C07-a (replies after the epilogue) is NOT: c07_close_order_* assert exactly that ordering and pass on the unchanged tree, but on the mutated code they run out of 30-44 GB (verdict INCONCLUSIVE, exit 2 - no VIOLATION line).",
    },
}
NOT_APPLICABLE.update({
    "C13": "solver-based checking does not reach it: the property lives entirely in async_lock::Semaphore / event-listener (third-party lock-free lists, inline-asm fences); the repository's own code is three lines of wiring (acquire_arc, clone of the Arc, guard field). Measured: with the fence stubbed, a 3-operation SEQUENTIAL history (limit 1: acquire, queued acquire, drop, re-acquire) exhausts 20 GB in CBMC after 630 s; the thread-interleaving quantifier is outside Kani altogether (atomics are executed sequentially). harness c13_tokens_limit1 is kept as tier=manual.",
})
PROPS.setdefault("C13", {"claimed": False})
CLAIMED_NOW = {"C15", "C16", "C17", "C18", "C19", "C20", "C01", "C02", "C03", "C04", "C05", "C06", "C08", "C09", "C10", "C11", "C12", "C14", "C07"}
for k, v in PROPS.items():
    if k not in CLAIMED_NOW:
        v["claimed"] = False
for k, v in PROPS.items():
    v.setdefault("functions", []); v.setdefault("bounds", ""); v.setdefault("outside", ""); v.setdefault("assumptions", [])
    v.setdefault("technique", TECH)
